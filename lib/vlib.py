"""Shared plumbing for /verif/bin/check: harness build, TLC runs, evidence, known findings, exit codes.

Exit codes: 0 property held on everything explored (KNOWN-FINDING / NOTE lines allowed),
            1 at least one `VIOLATION property=<id> replay=<path>` line,
            2 tool error or time-out (never with a VIOLATION line).
"""
import json
import os
import re
import shutil
import subprocess
import sys
import time

ROOT = os.path.dirname(os.path.dirname(os.path.abspath(__file__)))
SPEC = os.path.join(ROOT, "spec")
HARNESS = os.path.join(ROOT, "harness")
BIN = os.path.join(HARNESS, "target", "debug", "pkverif")
EVID = os.path.join(ROOT, "evidence")
REPLAYS = os.path.join(ROOT, "replays")
KNOWN = os.path.join(ROOT, "known_findings.jsonl")
REPO = "/repo"


class ToolError(Exception):
    pass


def log(*a):
    print(*a, flush=True)


def sh(cmd, cwd=None, env=None, timeout=None, check=True, capture=True):
    e = dict(os.environ)
    if env:
        e.update(env)
    try:
        p = subprocess.run(cmd, cwd=cwd, env=e, timeout=timeout, text=True,
                           stdout=subprocess.PIPE if capture else None,
                           stderr=subprocess.STDOUT if capture else None)
    except subprocess.TimeoutExpired:
        raise ToolError("timeout after %ss: %s" % (timeout, " ".join(cmd)[:200]))
    if check and p.returncode != 0:
        raise ToolError("command failed (%d): %s\n%s" % (p.returncode, " ".join(cmd)[:300], (p.stdout or "")[-3000:]))
    return p


def build_harness():
    """(Re)build the harness against /repo's current working tree."""
    t = time.time()
    lock = os.path.join(HARNESS, "Cargo.lock")
    if not os.path.exists(lock):
        shutil.copy(os.path.join(REPO, "Cargo.lock"), lock)
    env = {"CARGO_NET_OFFLINE": "true"}
    p = sh(["cargo", "build", "--offline", "--quiet"], cwd=HARNESS, env=env, timeout=1800, check=False)
    if p.returncode != 0:
        raise ToolError("harness build failed:\n" + (p.stdout or "")[-4000:])
    return time.time() - t


def harness(args, timeout=1800, env=None, check=True):
    """Run the harness; its stdout's last line is a JSON summary."""
    p = sh([BIN] + [str(a) for a in args], timeout=timeout, env=env, check=False)
    if check and p.returncode != 0:
        raise ToolError("harness %s failed (%d):\n%s" % (" ".join(map(str, args))[:200], p.returncode, (p.stdout or "")[-3000:]))
    last = [ln for ln in (p.stdout or "").splitlines() if ln.startswith("{")]
    return json.loads(last[-1]) if last else {}


class Tlc:
    def __init__(self, out, rc):
        self.out = out
        self.rc = rc
        m = re.search(r"(\d+) states generated, (\d+) distinct states found", out)
        self.generated = int(m.group(1)) if m else 0
        self.distinct = int(m.group(2)) if m else 0
        m = re.search(r"depth of the complete state graph search is (\d+)", out)
        self.depth = int(m.group(1)) if m else 0
        self.completed = "Model checking completed. No error has been found." in out
        self.invariant_violated = re.findall(r"Invariant (\S+) is violated", out)
        self.temporal_violated = "Temporal properties were violated" in out
        # per-action coverage: <Name line .. of module M>: distinct:generated
        self.actions = {}
        for m in re.finditer(r"^<(\w+) line \d+, col \d+ to line \d+, col \d+ of module (\w+)>: (\d+):(\d+)", out, re.M):
            self.actions[m.group(1)] = self.actions.get(m.group(1), 0) + int(m.group(4))

    def prints(self, tag):
        """Values printed as <<"TAG", "json">> by PrintT(<<tag, ToJson(..)>>)."""
        res = []
        pre = '<<"%s", ' % tag
        for ln in self.out.splitlines():
            if ln.startswith(pre) and ln.endswith(">>"):
                body = ln[len(pre):-2]
                res.append(json.loads(json.loads(body)))
        return res

    def errors(self):
        return [ln for ln in self.out.splitlines() if "Error:" in ln or "error:" in ln.lower() and "No error" not in ln]


def tlc(module, cfg, work, env=None, workers=4, coverage=False, timeout=3600, simulate=None, xmx="4g", depth_first=False, seed=None, depth=None):
    os.makedirs(work, exist_ok=True)
    meta = os.path.join(work, "meta-%s-%s" % (os.path.basename(cfg), os.getpid()))
    jopts = "-Xss1g -Xmx%s" % xmx
    if depth_first:
        jopts += " -Dtlc2.tool.queue.IStateQueue=StateDeque"
    e = {"JAVA_TOOL_OPTIONS": jopts}
    if env:
        e.update(env)
    cmd = ["tlc", "-workers", str(workers), "-metadir", meta, "-cleanup", "-noGenerateSpecTE"]
    if coverage:
        cmd += ["-coverage", "1"]
    if simulate:
        cmd += ["-simulate", simulate]
    if seed is not None:
        cmd += ["-seed", str(seed)]
    if depth is not None:
        cmd += ["-depth", str(depth)]
    cmd += ["-config", cfg, module]
    p = sh(["timeout", str(timeout)] + cmd, cwd=SPEC, env=e, timeout=timeout + 60, check=False)
    shutil.rmtree(meta, ignore_errors=True)
    r = Tlc(p.stdout or "", p.returncode)
    if p.returncode == 124:
        raise ToolError("TLC timed out after %ss on %s" % (timeout, cfg))
    return r


def tlc_must_complete(r, what):
    if not r.completed:
        tail = "\n".join(r.out.splitlines()[-40:])
        raise ToolError("TLC did not complete on %s (rc=%s):\n%s" % (what, r.rc, tail))


def known_findings(prop):
    res = []
    if os.path.exists(KNOWN):
        for ln in open(KNOWN):
            ln = ln.strip()
            if not ln:
                continue
            k = json.loads(ln)
            if k.get("property") == prop:
                res.append(k)
    return res


class Check:
    """Collects what one check run explored and decides the exit code."""

    def __init__(self, prop, tier, seed, level):
        self.prop = prop
        self.tier = tier
        self.seed = seed
        self.level = level
        self.t0 = time.time()
        self.cov = {"evaluations": 0, "distinct_nontrivial": 0, "states": 0, "transitions": 0,
                    "traces_validated_against_impl": 0, "samples": [], "model_runs": [], "notes": []}
        self.assumptions = []
        self.violations = []     # (signature dict, text, replay payload)
        self.known_hits = []
        self.work = os.path.join(ROOT, "work", "%s.%d" % (prop, os.getpid()))
        os.makedirs(self.work, exist_ok=True)
        os.makedirs(EVID, exist_ok=True)

    # -- model checking bookkeeping
    def model_run(self, name, r, expect_actions=()):
        tlc_must_complete(r, name)
        self.cov["states"] += r.distinct
        self.cov["transitions"] += r.generated
        self.cov["model_runs"].append({"cfg": name, "distinct_states": r.distinct, "states_generated": r.generated,
                                       "depth": r.depth, "actions": r.actions})
        for a in expect_actions:
            if r.actions.get(a, 0) == 0:
                raise ToolError("vacuity guard: action %s never taken in %s" % (a, name))

    def note(self, text):
        log("NOTE " + text)
        self.cov["notes"].append(text)

    def sample(self, s, cap=6):
        if len(self.cov["samples"]) < cap:
            self.cov["samples"].append(s)

    def violation(self, sig, text, replay):
        """sig: structural signature used to match known findings."""
        text = "".join(ch if ch.isprintable() else "\\x%02x" % ord(ch) if ord(ch) < 256 else "?" for ch in text)
        for k in known_findings(self.prop):
            if k.get("status") == "known" and all(sig.get(a) == b for a, b in k.get("match", {}).items()):
                if k["id"] not in [h["id"] for h in self.known_hits]:
                    self.known_hits.append(k)
                return
        self.violations.append((sig, text, replay))

    def finish(self):
        os.makedirs(REPLAYS, exist_ok=True)
        for k in self.known_hits:
            log("KNOWN-FINDING: property=%s %s" % (self.prop, k["what"]))
        shown = 0
        seen = set()
        for i, (sig, text, replay) in enumerate(self.violations):
            key = json.dumps(sig, sort_keys=True)
            if key in seen:
                continue
            seen.add(key)
            if shown >= 10:
                break
            path = os.path.join(REPLAYS, "%s-%s-%d.json" % (self.prop, self.tier, shown))
            with open(path, "w") as f:
                json.dump({"property": self.prop, "signature": sig, "what": text, "replay": replay}, f, indent=1)
            log("VIOLATION property=%s replay=%s" % (self.prop, path))
            log("  " + text[:600])
            shown += 1
        ev = {"property_id": self.prop, "tier": self.tier, "seed": self.seed, "level": self.level,
              "coverage": self.cov, "assumptions": self.assumptions,
              "wall_s": round(time.time() - self.t0, 2), "violations": len(seen),
              "known_findings_hit": [k["id"] for k in self.known_hits]}
        if not self.cov["samples"]:
            self.cov["samples"] = ["(none recorded)"]
        with open(os.path.join(EVID, self.prop + ".json"), "w") as f:
            json.dump(ev, f, indent=1)
        shutil.rmtree(self.work, ignore_errors=True)
        log("%s %s: %d violation(s), %d known finding(s), evaluations=%d, %.1fs" % (
            self.prop, self.tier, len(seen), len(self.known_hits), self.cov["evaluations"], time.time() - self.t0))
        return 1 if seen else 0


def write_ndjson(path, items):
    with open(path, "w") as f:
        for it in items:
            f.write(json.dumps(it) + "\n")


def read_ndjson(path):
    return [json.loads(ln) for ln in open(path) if ln.strip()]
