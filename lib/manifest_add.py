import json, sys
def add(pid, cat, text, note, technique, design_ref):
    m=json.load(open('/verif/MANIFEST.json'))
    m['checks']=[c for c in m['checks'] if c['property_id']!=pid]
    m['checks'].append({"property_id":pid,"quick_cmd":"bin/check %s --tier quick"%pid,"thorough_cmd":"bin/check %s --tier thorough"%pid,
      "evidence_file":"evidence/%s.json"%pid,"replay_cmd_template":"bin/check %s --replay {path}"%pid,"engine":"tlc+pkverif",
      "level_claimed":{"category":cat,"text":text,"design_ref":design_ref},"level_note":note,"technique":technique})
    m['checks'].sort(key=lambda c:c['property_id'])
    m['not_applicable']=[n for n in m['not_applicable'] if n['property_id']!=pid]
    for e in m['engines']:
        if pid not in e['serves_properties']: e['serves_properties'].append(pid); e['serves_properties'].sort()
    json.dump(m,open('/verif/MANIFEST.json','w'),indent=1)
