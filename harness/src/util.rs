//! Small shared helpers: event sink, seeded rng, argument parsing, panic capture.
use rand::{rngs::StdRng, SeedableRng};
use serde_json::Value;
use std::io::{BufWriter, Write};
use std::{collections::HashMap, fs::File};

pub struct Sink {
    w: BufWriter<Box<dyn Write>>,
    pub n: u64,
}

impl Sink {
    pub fn create(path: &str) -> Self {
        let inner: Box<dyn Write> = if path == "-" {
            Box::new(std::io::stdout())
        } else {
            Box::new(File::create(path).unwrap_or_else(|e| {
                eprintln!("pkverif: cannot create {path}: {e}");
                std::process::exit(2)
            }))
        };
        Sink {
            w: BufWriter::with_capacity(1 << 20, inner),
            n: 0,
        }
    }
    pub fn emit(&mut self, v: Value) {
        serde_json::to_writer(&mut self.w, &v).unwrap();
        self.w.write_all(b"\n").unwrap();
        self.n += 1;
    }
    pub fn finish(mut self) -> u64 {
        self.w.flush().unwrap();
        self.n
    }
}

pub fn rng(seed: u64) -> StdRng {
    StdRng::seed_from_u64(seed)
}

/// `--key value` style arguments after the subcommand words.
pub struct Args {
    pub pos: Vec<String>,
    pub kv: HashMap<String, String>,
}

impl Args {
    pub fn parse(raw: &[String]) -> Self {
        let mut pos = vec![];
        let mut kv = HashMap::new();
        let mut i = 0;
        while i < raw.len() {
            if let Some(k) = raw[i].strip_prefix("--") {
                if i + 1 < raw.len() && !raw[i + 1].starts_with("--") {
                    kv.insert(k.to_string(), raw[i + 1].clone());
                    i += 2;
                } else {
                    kv.insert(k.to_string(), "true".to_string());
                    i += 1;
                }
            } else {
                pos.push(raw[i].clone());
                i += 1;
            }
        }
        Args { pos, kv }
    }
    pub fn get(&self, k: &str) -> Option<&str> {
        self.kv.get(k).map(|s| s.as_str())
    }
    pub fn req(&self, k: &str) -> &str {
        self.get(k).unwrap_or_else(|| {
            eprintln!("pkverif: missing --{k}");
            std::process::exit(2)
        })
    }
    pub fn num(&self, k: &str, default: u64) -> u64 {
        self.get(k).map(|s| s.parse().expect("number")).unwrap_or(default)
    }
    pub fn seed(&self) -> u64 {
        self.get("seed")
            .map(|s| s.parse().expect("seed"))
            .or_else(|| std::env::var("VERIF_SEED").ok().and_then(|s| s.parse().ok()))
            .unwrap_or(1)
    }
}

/// Run `f`, turning a panic of the code under test into `Err(message)`.
pub fn catch<T>(f: impl FnOnce() -> T) -> Result<T, String> {
    std::panic::catch_unwind(std::panic::AssertUnwindSafe(f)).map_err(|e| {
        if let Some(s) = e.downcast_ref::<&str>() {
            s.to_string()
        } else if let Some(s) = e.downcast_ref::<String>() {
            s.clone()
        } else {
            "panic".to_string()
        }
    })
}

pub fn quiet_panics() {
    std::panic::set_hook(Box::new(|_| {}));
}

/// Read ndjson lines into values.
pub fn read_ndjson(path: &str) -> Vec<Value> {
    let text = std::fs::read_to_string(path).unwrap_or_else(|e| {
        eprintln!("pkverif: cannot read {path}: {e}");
        std::process::exit(2)
    });
    text.lines()
        .filter(|l| !l.trim().is_empty())
        .map(|l| serde_json::from_str(l).expect("ndjson line"))
        .collect()
}
