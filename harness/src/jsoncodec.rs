//! C14: lenient JSON parsing of request options (cases from JsonCodec.tla), base64url identity, client-data key order.
use crate::rp;
use crate::util::{self, Args, Sink};
use passkey_types::webauthn::{ClientDataType, CollectedClientData, CredentialCreationOptions, CredentialRequestOptions};
use passkey_types::Bytes;
use rand::{seq::SliceRandom, Rng, RngCore};
use serde_json::{json, Map, Value};

fn b64(data: &[u8], url: bool, pad: bool) -> String {
    let a: &[u8; 64] = if url {
        b"ABCDEFGHIJKLMNOPQRSTUVWXYZabcdefghijklmnopqrstuvwxyz0123456789-_"
    } else {
        b"ABCDEFGHIJKLMNOPQRSTUVWXYZabcdefghijklmnopqrstuvwxyz0123456789+/"
    };
    let mut s = String::new();
    for c in data.chunks(3) {
        let n = (u32::from(c[0]) << 16) | (u32::from(*c.get(1).unwrap_or(&0)) << 8) | u32::from(*c.get(2).unwrap_or(&0));
        s.push(a[(n >> 18) as usize & 63] as char);
        s.push(a[(n >> 12) as usize & 63] as char);
        if c.len() > 1 { s.push(a[(n >> 6) as usize & 63] as char) } else if pad { s.push('=') }
        if c.len() > 2 { s.push(a[n as usize & 63] as char) } else if pad { s.push('=') }
    }
    s
}

/// one binary member in the chosen presentation; the canonical presentation is the byte array
fn bin(bytes: &[u8], how: &str) -> Value {
    match how {
        "array" => json!(bytes),
        "b64url" => json!(b64(bytes, true, false)),
        "b64url-pad" => json!(b64(bytes, true, true)),
        "b64" => json!(b64(bytes, false, false)),
        _ => json!(b64(bytes, false, true)),
    }
}

struct Mat {
    challenge: Vec<u8>,
    user: Vec<u8>,
    cred1: Vec<u8>,
    cred2: Vec<u8>,
    prf1: Vec<u8>,
    prf2: Vec<u8>,
}

/// Build the request document. `variant = false` gives the canonical document (byte arrays, numbers, no unknown parts).
fn doc(c: &Value, m: &Mat, variant: bool) -> Value {
    let create = c["req"] == "create";
    let how = if variant { c["bin"].as_str().unwrap() } else { "array" };
    let opt = c["opt"].as_str().unwrap();
    let en = c["enum"].as_str().unwrap();
    let member = c["member"].as_str().unwrap();
    let unknown = json!({"nested": [1, "two", {"three": null}], "flag": true});
    let only = en == "onlyUnknown";
    let lists = opt == "all" || opt == "lists" || ["transport", "hint", "credType", "attFormat", "onlyUnknown"].contains(&en) || member == "descriptor";
    let selection = create && (opt == "all" || opt == "selection" || ["userVerification", "attachment", "residentKey"].contains(&en) || member == "selection");
    let exts = opt == "all" || member == "extensions";
    let mut pk = Map::new();
    pk.insert("challenge".into(), bin(&m.challenge, how));
    // timeout
    match c["timeout"].as_str().unwrap() {
        "absent" => {}
        t => {
            pk.insert("timeout".into(), if !variant { json!(60000) } else {
                match t {
                    "number" => json!(60000),
                    "string" => json!("60000"),
                    _ => json!(60000.0),
                }
            });
        }
    }
    // descriptors
    let mut d1 = Map::new();
    d1.insert("type".into(), if en == "credType" { json!(if variant { "secret-key" } else { "unknown" }) } else { json!("public-key") });
    d1.insert("id".into(), bin(&m.cred1, how));
    d1.insert("transports".into(), if en == "transport" && variant { json!(["usb", "zigbee", "internal"]) } else { json!(["usb", "internal"]) });
    if member == "descriptor" && variant {
        d1.insert("futureMember".into(), unknown.clone());
    }
    let d2 = json!({"type": "public-key", "id": bin(&m.cred2, how)});
    let descs = json!([Value::Object(d1), d2]);
    if lists && only {
        // lists of nothing but unknown entries (variant) against the empty lists (canonical)
        let d = json!({"type": "public-key", "id": bin(&m.cred1, how), "transports": if variant { json!(["zigbee", "smoke-signal"]) } else { json!([]) }});
        pk.insert(if create { "excludeCredentials" } else { "allowCredentials" }.into(), json!([d]));
        pk.insert("hints".into(), if variant { json!(["quantum", "teleport"]) } else { json!([]) });
        pk.insert("attestationFormats".into(), if variant { json!(["quantum"]) } else { json!([]) });
    } else if lists {
        pk.insert(if create { "excludeCredentials" } else { "allowCredentials" }.into(), descs);
        pk.insert("hints".into(), if en == "hint" && variant { json!(["security-key", "quantum", "hybrid"]) } else { json!(["security-key", "hybrid"]) });
        pk.insert("attestationFormats".into(), if en == "attFormat" && variant { json!(["packed", "quantum", "none"]) } else { json!(["packed", "none"]) });
    }
    // attestation conveyance
    if en == "attestation" {
        if variant {
            pk.insert("attestation".into(), json!("fancy"));
        }
    } else if opt == "all" || opt == "selection" {
        pk.insert("attestation".into(), json!("direct"));
    }
    // extensions
    if exts {
        let mut e = Map::new();
        if create {
            e.insert("credProps".into(), json!(true));
        }
        let mut by = Map::new();
        by.insert(b64(&m.cred1, true, false), json!({"first": bin(&m.prf2, how)}));
        e.insert("prf".into(), json!({"eval": {"first": bin(&m.prf1, how), "second": bin(&m.prf2, how)}, "evalByCredential": Value::Object(by)}));
        if member == "extensions" && variant {
            e.insert("futureExtension".into(), unknown.clone());
            // member names of other WebAuthn levels / CTAP extensions are unknown members like any other, whatever
            // their values look like
            e.insert("credentialProtectionPolicy".into(), json!("userVerificationOptionalWithCredentialIdList"));
            e.insert("enforceCredentialProtectionPolicy".into(), json!("yes"));
            e.insert("largeBlob".into(), json!({"support": "perhaps"}));
            e.insert("minPinLength".into(), json!(2.5));
            e.insert("appid".into(), json!(17));
            e.insert("credBlob".into(), json!([1, "x"]));
            e.insert("uvm".into(), json!("true"));
            e.insert("payment".into(), json!({"isPayment": "maybe"}));
        }
        pk.insert("extensions".into(), Value::Object(e));
    }
    if create {
        let mut rpm = Map::new();
        rpm.insert("name".into(), json!("Example RP"));
        if opt != "none" {
            rpm.insert("id".into(), json!("example.com"));
        }
        if member == "rp" && variant {
            rpm.insert("icon".into(), unknown.clone());
        }
        pk.insert("rp".into(), Value::Object(rpm));
        let mut um = Map::new();
        um.insert("id".into(), bin(&m.user, how));
        um.insert("name".into(), json!("wendy"));
        um.insert("displayName".into(), json!("Wendy \u{1F511}"));
        if member == "user" && variant {
            um.insert("icon".into(), unknown.clone());
        }
        pk.insert("user".into(), Value::Object(um));
        // algorithms
        let alg = |n: i64| -> Value {
            if !variant { json!(n) } else {
                match c["alg"].as_str().unwrap() {
                    "number" => json!(n),
                    "string" => json!(n.to_string()),
                    _ => json!(n as f64),
                }
            }
        };
        let mut p1 = Map::new();
        p1.insert("type".into(), json!("public-key"));
        p1.insert("alg".into(), alg(-7));
        if member == "params" && variant {
            p1.insert("futureMember".into(), unknown.clone());
        }
        let mut params = vec![Value::Object(p1)];
        if en == "algValue" && variant {
            params.push(json!({"type": "public-key", "alg": -9999}));
        }
        params.push(json!({"type": "public-key", "alg": alg(-257)}));
        if only {
            params = if variant { vec![json!({"type": "public-key", "alg": -9999}), json!({"type": "public-key", "alg": "-70000"})] } else { vec![] };
        }
        pk.insert("pubKeyCredParams".into(), Value::Array(params));
        if selection {
            let mut s = Map::new();
            if en == "attachment" { if variant { s.insert("authenticatorAttachment".into(), json!("implanted")); } } else { s.insert("authenticatorAttachment".into(), json!("platform")); }
            if en == "residentKey" { if variant { s.insert("residentKey".into(), json!("perhaps")); } } else { s.insert("residentKey".into(), json!("required")); }
            s.insert("requireResidentKey".into(), json!(true));
            if en == "userVerification" { if variant { s.insert("userVerification".into(), json!("maybe")); } } else { s.insert("userVerification".into(), json!("required")); }
            if member == "selection" && variant {
                s.insert("futureCriterion".into(), unknown.clone());
            }
            pk.insert("authenticatorSelection".into(), Value::Object(s));
        }
    } else {
        if opt != "none" {
            pk.insert("rpId".into(), json!("example.com"));
        }
        if en == "userVerification" { if variant { pk.insert("userVerification".into(), json!("maybe")); } } else if opt == "all" || opt == "selection" { pk.insert("userVerification".into(), json!("discouraged")); }
    }
    if member == "top" && variant {
        pk.insert("futureMember".into(), unknown.clone());
    }
    json!({"publicKey": Value::Object(pk)})
}

pub fn doc_pub(c: &Value, rng: &mut impl RngCore) -> Value {
    let mut r = |n: usize| -> Vec<u8> {
        let mut v = vec![0u8; n];
        rng.fill_bytes(&mut v);
        v
    };
    let m = Mat { challenge: r(32), user: r(12), cred1: r(16), cred2: r(20), prf1: r(32), prf2: r(7) };
    doc(c, &m, true)
}

/// Reverse the member order of every object that is an element of a list (descriptors, parameters): JSON objects are
/// unordered, so an entry means the same whichever member comes first.
fn reverse_list_entries(v: &mut Value, in_list: bool) {
    match v {
        Value::Array(a) => a.iter_mut().for_each(|x| reverse_list_entries(x, true)),
        Value::Object(m) => {
            if in_list {
                let mut items: Vec<(String, Value)> = std::mem::take(m).into_iter().collect();
                items.reverse();
                for (k, x) in items {
                    m.insert(k, x);
                }
            }
            m.values_mut().for_each(|x| reverse_list_entries(x, false));
        }
        _ => {}
    }
}

/// The canonical document must also parse to what it SAYS (two presentations that lose the same entry would still
/// agree with each other): every list keeps its entries, the challenge keeps its bytes.
fn says_what_it_said(canon: &Value, parsed: &Value) -> bool {
    let (c, p) = (&canon["publicKey"], &parsed["publicKey"]);
    let len = |v: &Value| v.as_array().map(|a| a.len());
    let lists_ok = ["excludeCredentials", "allowCredentials", "pubKeyCredParams", "hints", "attestationFormats"]
        .iter()
        .all(|k| c.get(*k).is_none() || len(&c[*k]) == len(&p[*k]));
    let nested_ok = ["excludeCredentials", "allowCredentials"].iter().all(|k| {
        c.get(*k).and_then(|v| v.as_array()).map(|a| {
            a.iter().enumerate().all(|(i, d)| d.get("transports").is_none() || len(&d["transports"]) == len(&p[*k][i]["transports"]))
        }).unwrap_or(true)
    });
    let bytes_of = |v: &Value| -> Option<Vec<u8>> {
        match v {
            Value::Array(a) => a.iter().map(|x| x.as_u64().map(|n| n as u8)).collect(),
            Value::String(t) => crate::rp::b64url_decode(t),
            _ => None,
        }
    };
    lists_ok && nested_ok && bytes_of(&c["challenge"]).is_some() && bytes_of(&c["challenge"]) == bytes_of(&p["challenge"])
}

fn parse_same(c: &Value, m: &Mat) -> (String, bool) {
    let mut v = doc(c, m, true);
    if c["order"] == "rev" {
        reverse_list_entries(&mut v, false);
    }
    let canon = doc(c, m, false);
    // through text, as a caller would hand it over
    let vtext = serde_json::to_string(&v).unwrap();
    let ctext = serde_json::to_string(&canon).unwrap();
    if c["req"] == "create" {
        let a = serde_json::from_str::<CredentialCreationOptions>(&vtext);
        let b = serde_json::from_str::<CredentialCreationOptions>(&ctext);
        match (a, b) {
            (Ok(a), Ok(b)) => ("ok".into(), serde_json::to_value(&a).unwrap() == serde_json::to_value(&b).unwrap() && format!("{a:?}") == format!("{b:?}")
                && says_what_it_said(&canon, &serde_json::to_value(&b).unwrap())),
            (Err(e), _) => (format!("err: {e}"), false),
            (_, Err(e)) => (format!("canonical-err: {e}"), false),
        }
    } else {
        let a = serde_json::from_str::<CredentialRequestOptions>(&vtext);
        let b = serde_json::from_str::<CredentialRequestOptions>(&ctext);
        match (a, b) {
            (Ok(a), Ok(b)) => ("ok".into(), serde_json::to_value(&a).unwrap() == serde_json::to_value(&b).unwrap() && format!("{a:?}") == format!("{b:?}")
                && says_what_it_said(&canon, &serde_json::to_value(&b).unwrap())),
            (Err(e), _) => (format!("err: {e}"), false),
            (_, Err(e)) => (format!("canonical-err: {e}"), false),
        }
    }
}

fn base() -> Value {
    json!({"kind": "", "case": {"req": "", "bin": "", "timeout": "", "alg": "", "enum": "", "member": "", "opt": "", "order": ""}, "crash": false,
           "parse": "none", "same": false, "bytes": [], "enc": [], "decok": false, "ownok": false, "small": false,
           "extra": [], "unknown": [], "got": [], "valuesok": false})
}

pub fn main(args: &Args) {
    util::quiet_panics();
    let mut rng = util::rng(args.seed());
    let cases: Vec<Value> = serde_json::from_str(&std::fs::read_to_string(args.req("cases")).expect("cases")).expect("json");
    let mut out = Sink::create(args.req("out"));
    let rnd = |rng: &mut rand::rngs::StdRng, n: usize| -> Vec<u8> {
        let mut v = vec![0u8; n];
        rng.fill_bytes(&mut v);
        v
    };
    for c in &cases {
        // (now and then a byte string longer than any buffer a decoder may size from a constant)
        let lens = [0usize, 1, 2, 3, 16, 31, 32, 33, 64];
        let pick = |rng: &mut rand::rngs::StdRng| -> usize {
            if rng.gen_range(0..60) == 0 { *[4096usize, 4097, 70000].choose(rng).unwrap() } else { *lens.choose(rng).unwrap() }
        };
        let (l1, l2, l3, l4, l5, l6) = (pick(&mut rng), pick(&mut rng), 16 + rng.gen_range(0..3), 1 + rng.gen_range(0..40), pick(&mut rng), 1 + rng.gen_range(0..40));
        let m = Mat {
            challenge: rnd(&mut rng, l1),
            user: rnd(&mut rng, l2),
            cred1: rnd(&mut rng, l3),
            cred2: rnd(&mut rng, l4),
            prf1: rnd(&mut rng, l5),
            prf2: rnd(&mut rng, l6),
        };
        let mut e = base();
        e["kind"] = json!("parse");
        e["case"] = c.clone();
        match util::catch(|| parse_same(c, &m)) {
            Err(_) => e["crash"] = json!(true),
            Ok((p, same)) => {
                e["parse"] = json!(if p == "ok" { "ok".to_string() } else { p });
                e["same"] = json!(same);
            }
        }
        out.emit(e);
    }
    // base64url: encode then decode is the identity; the encoding equals the executable definition (judged in TLA+ for the small ones)
    let mut inputs: Vec<(Vec<u8>, bool)> = vec![];
    for n in 0..=66usize {
        inputs.push(((0..n).map(|i| (i * 37 + 11) as u8).collect(), true));
        inputs.push((vec![0xff; n], true));
        inputs.push((rnd(&mut rng, n), true));
    }
    for _ in 0..args.num("random-b64", 300) {
        let n = rng.gen_range(67..4096);
        inputs.push((rnd(&mut rng, n), false));
    }
    for (bytes, small) in inputs {
        let mut e = base();
        e["kind"] = json!("b64");
        e["small"] = json!(small);
        let r = util::catch(|| {
            let enc = passkey_types::encoding::base64url(&bytes);
            let dec = passkey_types::encoding::try_from_base64url(&enc);
            let via_bytes: Option<Vec<u8>> = Bytes::try_from(enc.as_str()).ok().map(Into::into);
            (enc, dec, via_bytes)
        });
        match r {
            Err(_) => e["crash"] = json!(true),
            Ok((enc, dec, via)) => {
                e["decok"] = json!(dec.as_deref() == Some(&bytes[..]) && via.as_deref() == Some(&bytes[..]));
                e["ownok"] = json!(enc == rp::b64url(&bytes) && rp::b64url_decode(&enc).as_deref() == Some(&bytes[..]));
                if small {
                    e["bytes"] = json!(bytes);
                    e["enc"] = json!(enc.chars().map(|c| c.to_string()).collect::<Vec<_>>());
                }
            }
        }
        out.emit(e);
    }
    // collected client data: key order with extras (nested values, any key order) and unknown members
    // (member names of later WebAuthn levels and of other platforms are ordinary unknown members for this purpose)
    let pool = ["androidPackageName", "zeta", "alpha", "mid", "payment", "Type", "challenge2", "a", "z", "origin2",
                "topOrigin", "tokenBinding", "other_keys_can_be_added_here"];
    for _ in 0..args.num("cd", 400) {
        let mut keys: Vec<&str> = pool.to_vec();
        keys.shuffle(&mut rng);
        let ne = rng.gen_range(0..5);
        let nu = rng.gen_range(0..4);
        let extra_keys: Vec<String> = keys[..ne].iter().map(|s| s.to_string()).collect();
        let unknown_keys: Vec<String> = keys[ne..ne + nu].iter().map(|s| s.to_string()).collect();
        let val = |rng: &mut rand::rngs::StdRng| -> Value {
            match rng.gen_range(0..5) {
                0 => json!(null),
                1 => json!({"b": 1, "a": [1, 2, {"k": "v"}]}),
                2 => json!([3, 2, 1]),
                3 => json!("text \u{00e9}"),
                _ => json!(1.5),
            }
        };
        let mut extra = Map::new();
        for k in &extra_keys {
            extra.insert(k.clone(), val(&mut rng));
        }
        let mut unknown = indexmap::IndexMap::new();
        for k in &unknown_keys {
            unknown.insert(k.clone(), val(&mut rng));
        }
        // (built by parsing and then setting the public fields, so that a member added to the struct does not stop
        // the harness from compiling)
        let mut cd: CollectedClientData<Value> =
            serde_json::from_value(json!({"type": "webauthn.get", "challenge": "Y2hhbGxlbmdl", "origin": "https://example.com"})).expect("client data");
        cd.ty = if rng.gen_bool(0.5) { ClientDataType::Create } else { ClientDataType::Get };
        cd.cross_origin = *[None, Some(false), Some(true)].choose(&mut rng).unwrap();
        cd.extra_data = Value::Object(extra.clone());
        cd.unknown_keys = unknown.clone();
        let mut e = base();
        e["kind"] = json!("cd");
        e["extra"] = json!(extra_keys);
        e["unknown"] = json!(unknown_keys);
        match util::catch(|| serde_json::to_string(&cd)) {
            Err(_) => e["crash"] = json!(true),
            Ok(Err(_)) => e["got"] = json!(["(serialisation error)"]),
            Ok(Ok(text)) => {
                let parsed: Value = serde_json::from_str(&text).unwrap_or(Value::Null);
                if let Value::Object(m) = &parsed {
                    e["got"] = json!(m.keys().collect::<Vec<_>>());
                    e["valuesok"] = json!(extra.iter().all(|(k, v)| m.get(k) == Some(v)) && unknown.iter().all(|(k, v)| m.get(k) == Some(v)));
                }
            }
        }
        out.emit(e);
        // the same for a document that is parsed first: the four standard members anywhere among unknown ones
        let mut doc: Vec<(String, Value)> = vec![
            ("type".into(), json!("webauthn.create")),
            ("challenge".into(), json!("Y2hhbGxlbmdl")),
            ("origin".into(), json!("https://example.com")),
            ("crossOrigin".into(), json!(rng.gen_bool(0.5))),
        ];
        for k in &unknown_keys {
            doc.push((k.clone(), val(&mut rng)));
        }
        for k in &extra_keys {
            doc.push((k.clone(), val(&mut rng)));
        }
        doc.shuffle(&mut rng);
        let text = format!("{{{}}}", doc.iter().map(|(k, v)| format!("{}:{}", Value::String(k.clone()), v)).collect::<Vec<_>>().join(","));
        let others: Vec<String> = doc.iter().map(|(k, _)| k.clone()).filter(|k| !["type", "challenge", "origin", "crossOrigin"].contains(&k.as_str())).collect();
        let mut e = base();
        e["kind"] = json!("cd");
        e["extra"] = json!([]);
        e["unknown"] = json!(others);
        match util::catch(|| serde_json::from_str::<CollectedClientData<()>>(&text).map(|cd| serde_json::to_string(&cd))) {
            Err(_) => e["crash"] = json!(true),
            Ok(Err(_)) | Ok(Ok(Err(_))) => e["got"] = json!(["(parse or serialisation error)"]),
            Ok(Ok(Ok(back))) => {
                let parsed: Value = serde_json::from_str(&back).unwrap_or(Value::Null);
                if let Value::Object(m) = &parsed {
                    e["got"] = json!(m.keys().collect::<Vec<_>>());
                    e["valuesok"] = json!(doc.iter().all(|(k, v)| m.get(k) == Some(v)));
                }
            }
        }
        out.emit(e);
    }
    let n = out.finish();
    println!("{}", json!({"events": n, "cases": cases.len()}));
}
