//! Client-level (WebAuthn) ceremonies: Client::register / Client::authenticate driven from the abstract requests of
//! spec/ClientCer.tla, with the relying-party role reading the returned credential independently.
use crate::cer::*;
use crate::cerrun::Run;
use crate::rp;
use crate::util;
use ciborium::value::Value as Cbor;
use passkey_client::{DefaultClientData, DefaultClientDataWithCustomHash, DefaultClientDataWithExtra, Origin, UnverifiedAssetLink, WebauthnError};
use passkey_types::webauthn::{
    AuthenticatedPublicKeyCredential, AuthenticationExtensionsClientInputs, AuthenticationExtensionsPrfInputs,
    AuthenticationExtensionsPrfValues, AuthenticatorSelectionCriteria, CreatedPublicKeyCredential,
    CredentialCreationOptions, CredentialRequestOptions, PublicKeyCredentialCreationOptions, PublicKeyCredentialParameters,
    PublicKeyCredentialRequestOptions, PublicKeyCredentialRpEntity, PublicKeyCredentialType, PublicKeyCredentialUserEntity,
    ResidentKeyRequirement, UserVerificationRequirement, AttestationConveyancePreference, AttestationStatementFormatIdentifiers,
};
use passkey_types::Bytes;
use rand::{Rng, RngCore};
use serde_json::{json, Value};
use std::collections::HashMap;
use url::Url;

pub fn origin_url(name: &str) -> &'static str {
    match name {
        "o.r1w" => "https://www.example.com",
        "o.r1" => "https://example.com",
        "o.r1p" => "https://example.com:8443",
        "o.evil" => "https://evilexample.com",
        "o.http" => "http://www.example.com",
        "o.r2" => "https://login.other-site.org",
        "o.local" => "http://localhost:8080",
        "o.ip" => "https://192.168.7.7",
        // an internationalised host, given in punycode and as typed (the URL parser turns both into punycode; the
        // origin a relying party sees is the ASCII serialisation)
        "o.q1" => "https://adobe.com",
        "o.q2" => "https://account.hyatt.com",
        "o.idn" => "https://xn--bcher-kva.example",
        "o.idnu" => "https://b\u{fc}cher.example",
        // Android application origins: the name stands for the asset-link host (see `origin_of`)
        "o.and.r1" => "https://example.com",
        "o.and.r1w" => "https://www.example.com",
        "o.and.evil" => "https://evilexample.com",
        _ => "https://unknown-origin.example.net",
    }
}

fn rpid_string(run: &mut Run, name: &str) -> Option<String> {
    match name {
        "absent" => None,
        "com" => Some("com".to_string()),
        "localhost" => Some("localhost".to_string()),
        other => Some(run.sh.lock().unwrap().dict.rp_string(other)),
    }
}

fn alg_of(name: &str) -> coset::iana::Algorithm {
    match name {
        "ES256" => coset::iana::Algorithm::ES256,
        "RS256" => coset::iana::Algorithm::RS256,
        "EdDSA" => coset::iana::Algorithm::EdDSA,
        // identifiers that are not signature algorithms (non-negative COSE values): unsupported entries like any other
        "HMAC" => coset::iana::Algorithm::HMAC_256_256,
        "A128GCM" => coset::iana::Algorithm::A128GCM,
        "zero" => coset::iana::Algorithm::Reserved,
        _ => coset::iana::Algorithm::ES512,
    }
}

fn challenge(run: &mut Run, class: &str) -> Vec<u8> {
    let n = match class {
        "c0" => 0,
        "c1" => 1,
        "c1024" => 1024,
        _ => 32,
    };
    let mut v = vec![0u8; n];
    run.rng.fill_bytes(&mut v);
    v
}

fn webauthn_salt(input: &[u8]) -> [u8; 32] {
    let mut m = b"WebAuthn PRF".to_vec();
    m.push(0);
    m.extend_from_slice(input);
    rp::sha256(&m)
}

/// Concrete PRF input named `name`; registers the salts a correct client could derive from it.
fn prf_input(run: &mut Run, name: &str, hashed: bool, badlen: bool) -> Bytes {
    let len = if hashed {
        if badlen {
            *[0usize, 31, 33, 64].get(run.rng.gen_range(0..4)).unwrap()
        } else {
            32
        }
    } else if run.both_members && run.run_idx % 2 == 0 {
        // both members present: every other run the plain input has the length of a pre-hashed one, where taking
        // it for pre-hashed yields a different (wrong) salt instead of an error
        32
    } else {
        *[0usize, 1, 31, 32, 33, 1000].get(run.rng.gen_range(0..6)).unwrap()
    };
    let mut b = vec![0u8; len];
    run.rng.fill_bytes(&mut b);
    // pre-hashed inputs reach the authenticator as they are: every fourth run a caller supplies degenerate ones
    if hashed && len == 32 {
        match (run.run_idx % 4, name.ends_with("e1"), name.ends_with("e2")) {
            (1, _, true) | (2, true, _) => b = vec![0u8; 32],
            (2, _, true) => b = vec![0xffu8; 32],
            _ => {}
        }
    }
    // two inputs of one request must differ, or their outputs could not be told apart (only the empty input can collide)
    while !hashed && run.salts.iter().any(|(_, s)| *s == webauthn_salt(&b)) {
        b = vec![0u8; 1 + run.rng.gen_range(0..40)];
        run.rng.fill_bytes(&mut b);
    }
    run.salts.push((name.to_string(), webauthn_salt(&b)));
    if b.len() == 32 {
        run.salts.push((format!("raw:{name}"), b.clone().try_into().unwrap()));
    }
    b.into()
}

fn prf_values(run: &mut Run, prefix: &str, n: &str, hashed: bool, badlen: bool) -> Option<AuthenticationExtensionsPrfValues> {
    match n {
        "one" => Some(AuthenticationExtensionsPrfValues { first: prf_input(run, &format!("{prefix}1"), hashed, badlen), second: None }),
        "two" => Some(AuthenticationExtensionsPrfValues {
            first: prf_input(run, &format!("{prefix}1"), hashed, false),
            second: Some(prf_input(run, &format!("{prefix}2"), hashed, badlen)),
        }),
        _ => None,
    }
}

/// one member (`prf` or `prfAlreadyHashed`); `tag` distinguishes the inputs of the two members
fn prf_member(run: &mut Run, c: &Value, hashed: bool, tag: &str) -> AuthenticationExtensionsPrfInputs {
    let badlen = hashed && c["badlen"].as_bool().unwrap();
    let eval = prf_values(run, &format!("{tag}e"), c["eval"].as_str().unwrap(), hashed, badlen);
    let eval_by_credential = if c["byCredGiven"].as_bool().unwrap() {
        let mut m = HashMap::new();
        for e in c["byCred"].as_array().unwrap() {
            let id = e["id"].as_str().unwrap();
            let key = match id {
                "k:empty" => String::new(),
                "k:bad64" => "!!not*base64!!".to_string(),
                name => {
                    let bytes = {
                        let sh = run.sh.clone();
                        let mut s = sh.lock().unwrap();
                        s.dict.cred_bytes(name, &mut run.rng)
                    };
                    rp::b64url(&bytes)
                }
            };
            let v = prf_values(run, &format!("{tag}{id}."), e["n"].as_str().unwrap(), hashed, badlen).unwrap();
            m.insert(key, v);
        }
        Some(m)
    } else {
        None
    };
    AuthenticationExtensionsPrfInputs { eval, eval_by_credential }
}

fn extensions(run: &mut Run, req: &Value) -> Option<AuthenticationExtensionsClientInputs> {
    let c = &req["cprf"];
    let kind = c["kind"].as_str().unwrap();
    let cred_props = match req["credProps"].as_str().unwrap() {
        "true" => Some(true),
        "false" => Some(false),
        _ => None,
    };
    run.both_members = kind == "both";
    let prf = if kind == "prf" || kind == "both" { Some(prf_member(run, c, false, "")) } else { None };
    // the pre-hashed member carries its own inputs: "h:" when both members are present
    let prf_already_hashed = if kind == "hashed" || kind == "both" {
        Some(prf_member(run, c, true, if kind == "both" { "h:" } else { "" }))
    } else {
        None
    };
    if cred_props.is_none() && prf.is_none() && prf_already_hashed.is_none() {
        None
    } else {
        #[allow(clippy::needless_update)]
        Some(AuthenticationExtensionsClientInputs { cred_props, prf, prf_already_hashed, ..Default::default() })
    }
}

fn werr_name(e: &WebauthnError) -> (String, u8) {
    match e {
        WebauthnError::AuthenticatorError(b) => ("AuthenticatorError".to_string(), *b),
        other => (format!("{other:?}"), 0),
    }
}

/// the extra client-data members of a ceremony: mode "extra" a nested object, "extra0" an object without members
fn extra_of(mode: &str) -> Value {
    if mode == "extra0" { json!({}) } else { extra_value() }
}

fn extra_value() -> Value {
    json!({"androidPackageName": "com.example.browser", "zeta": {"b": 1, "a": [1, 2, {"k": null}]}, "alpha": null, "mid": "x"})
}

/// Reading of the collected client data: (type, challenge ok, origin ok, crossOrigin, order ok, sha256 of the bytes)
fn read_client_data(bytes: &[u8], chal: &[u8], origin: &str, extra: Option<&Value>) -> (String, bool, bool, bool, bool) {
    let Ok(Value::Object(m)) = serde_json::from_slice::<Value>(bytes) else {
        return ("unparseable".into(), false, false, false, false);
    };
    let ty = m.get("type").and_then(|v| v.as_str()).unwrap_or("missing").to_string();
    let ch = m.get("challenge").and_then(|v| v.as_str()).unwrap_or("\u{0}");
    // unpadded base64url: our own decoder accepts only the url-safe alphabet and no padding
    let chal_ok = rp::b64url_decode(ch).as_deref() == Some(chal) && rp::b64url(chal) == ch;
    let origin_ok = m.get("origin").and_then(|v| v.as_str()) == Some(origin);
    let cross = m.get("crossOrigin").and_then(|v| v.as_bool()).unwrap_or(false);
    let keys: Vec<&String> = m.keys().collect();
    let mut expect: Vec<String> = vec!["type".into(), "challenge".into(), "origin".into(), "crossOrigin".into()];
    if let Some(Value::Object(x)) = extra {
        expect.extend(x.keys().cloned());
    }
    let order_ok = keys.len() == expect.len() && keys.iter().zip(expect.iter()).all(|(a, b)| *a == b)
        && extra.map(|x| x.as_object().unwrap().iter().all(|(k, v)| m.get(k) == Some(v))).unwrap_or(true);
    (ty, chal_ok, origin_ok, cross, order_ok)
}

/// A request origin: a web URL, or an Android application vouched for by an asset link on a host.
enum POrigin {
    Web(Url),
    Android(UnverifiedAssetLink<'static>),
}

const APP_FINGERPRINT: &str = "B3:5B:68:D5:CE:84:50:55:7C:6A:55:FD:64:B5:1F:EA:C1:10:CB:36:D6:A3:52:1C:59:48:DB:3A:38:0A:34:A9";

impl POrigin {
    fn of(name: &str) -> POrigin {
        let url = Url::parse(origin_url(name)).unwrap();
        if name.starts_with("o.and.") {
            let host = url.host_str().unwrap().to_string();
            let asset = Url::parse(&format!("https://{host}/.well-known/assetlinks.json")).unwrap();
            POrigin::Android(UnverifiedAssetLink::new("com.example.app", APP_FINGERPRINT, host, asset).expect("asset link"))
        } else {
            POrigin::Web(url)
        }
    }
    fn as_origin(&self) -> Origin<'_> {
        match self {
            POrigin::Web(u) => Origin::Web(std::borrow::Cow::Borrowed(u)),
            POrigin::Android(l) => Origin::Android(l.clone()),
        }
    }
    /// what a relying party expects in clientDataJSON.origin: the serialised web origin, or
    /// android:apk-key-hash:<base64url of the SHA-256 certificate fingerprint>
    fn text(&self) -> String {
        match self {
            POrigin::Web(u) => u.origin().ascii_serialization(),
            POrigin::Android(_) => {
                let fp: Vec<u8> = APP_FINGERPRINT.split(':').map(|h| u8::from_str_radix(h, 16).unwrap()).collect();
                format!("android:apk-key-hash:{}", rp::b64url(&fp))
            }
        }
    }
}

struct Prepared {
    origin: POrigin,
    chal: Vec<u8>,
    mode: String,
    custom_hash: Vec<u8>,
}

fn prepare(run: &mut Run, req: &Value) -> Prepared {
    let origin = POrigin::of(req["origin"].as_str().unwrap());
    let chal = challenge(run, req["chal"].as_str().unwrap());
    // "hash" = a caller-supplied 32-byte hash; "hash<N>" = one of N bytes (the caller need not use SHA-256)
    let mode = req["cdmode"].as_str().unwrap();
    let n: usize = mode.strip_prefix("hash").and_then(|t| t.parse().ok()).unwrap_or(32);
    let mut custom_hash = vec![0u8; n];
    run.rng.fill_bytes(&mut custom_hash);
    Prepared { origin, chal, mode: req["cdmode"].as_str().unwrap().to_string(), custom_hash }
}

fn register(run: &mut Run, req: &Value) -> Value {
    let p = prepare(run, req);
    let (user, rpid) = {
        let u = {
            let sh = run.sh.clone();
            let mut s = sh.lock().unwrap();
            s.dict.user_bytes(req["user"].as_str().unwrap(), &mut run.rng)
        };
        (u, rpid_string(run, req["rpid"].as_str().unwrap()))
    };
    // make sure the effective RP ID the property defines is known to the dictionary under the plan's name
    run.sh.lock().unwrap().dict.rp_string(req["rp"].as_str().unwrap());
    let exclude = if req["excludeGiven"].as_bool().unwrap() { Some(run.descriptors(&req["exclude"])) } else { None };
    let ext = extensions(run, req);
    let options = CredentialCreationOptions {
        public_key: PublicKeyCredentialCreationOptions {
            rp: PublicKeyCredentialRpEntity { id: rpid, name: "Example RP \u{1F511}".into() },
            user: PublicKeyCredentialUserEntity { id: user.into(), display_name: "W\u{00e9}ndy \u{6f22}".into(), name: "wendy@example.com".into() },
            challenge: p.chal.clone().into(),
            pub_key_cred_params: req["algs"]
                .as_array()
                .unwrap()
                .iter()
                .map(|a| {
                    // "u:<alg>": an entry whose credential type string this library does not know
                    let name = a.as_str().unwrap();
                    match name.strip_prefix("u:") {
                        Some(n) => PublicKeyCredentialParameters { ty: PublicKeyCredentialType::Unknown, alg: alg_of(n) },
                        None => PublicKeyCredentialParameters { ty: PublicKeyCredentialType::PublicKey, alg: alg_of(name) },
                    }
                })
                .collect(),
            timeout: None,
            exclude_credentials: exclude,
            authenticator_selection: if req["authSel"].as_bool().unwrap() {
                Some(AuthenticatorSelectionCriteria {
                    authenticator_attachment: None,
                    resident_key: match req["residentKey"].as_str().unwrap() {
                        "discouraged" => Some(ResidentKeyRequirement::Discouraged),
                        "preferred" => Some(ResidentKeyRequirement::Preferred),
                        "required" => Some(ResidentKeyRequirement::Required),
                        // a string of a later WebAuthn level, read the way a relying party's options arrive
                        "unknown" => serde_json::from_value::<AuthenticatorSelectionCriteria>(json!({"residentKey": "required-if-supported"}))
                            .ok()
                            .and_then(|c| c.resident_key),
                        _ => None,
                    },
                    require_resident_key: req["requireRk"].as_bool().unwrap(),
                    user_verification: uv_req(req["uvreq"].as_str().unwrap()),
                })
            } else {
                None
            },
            hints: None,
            // the attestation conveyance preference and the other hints of a request change nothing about the outcome
            attestation: match req["att"].as_str().unwrap_or("absent") {
                "indirect" => AttestationConveyancePreference::Indirect,
                "direct" => AttestationConveyancePreference::Direct,
                "enterprise" => AttestationConveyancePreference::Enterprise,
                "none" => AttestationConveyancePreference::None,
                _ => Default::default(),
            },
            attestation_formats: if req["att"].as_str().unwrap_or("absent") == "absent" { None } else { Some(vec![AttestationStatementFormatIdentifiers::Packed, AttestationStatementFormatIdentifiers::None]) },
            extensions: ext,
        },
    };
    let mut client = run.client.take().unwrap();
    let sh = run.sh.clone();
    let extra = extra_of(&p.mode);
    let out = util::catch(|| match p.mode.as_str() {
        "extra" | "extra0" => drive(client.register(p.origin.as_origin(), options, DefaultClientDataWithExtra(extra.clone())), &sh),
        m if m.starts_with("hash") => drive(client.register(p.origin.as_origin(), options, DefaultClientDataWithCustomHash(p.custom_hash.clone())), &sh),
        _ => drive(client.register(p.origin.as_origin(), options, DefaultClientData), &sh),
    });
    run.client = Some(client);
    match out {
        Err(m) => json!({"ev": "Crash", "d": {"what": m}}),
        Ok(Outcome::Hung) => json!({"ev": "Crash", "d": {"what": "hung"}}),
        Ok(Outcome::Cancelled(_)) => json!({"ev": "Cancel", "d": {"after": sh.lock().unwrap().counted}}),
        Ok(Outcome::Done(Err(e))) => {
            let (name, code) = werr_name(&e);
            let mut d = Run::err_end(code);
            d["werr"] = json!(name);
            d["leaks"] = run.leak_scan(vec![("webauthn error (Debug)".into(), format!("{e:?}").into_bytes()),
                                            ("webauthn error (JSON)".into(), serde_json::to_vec(&e).unwrap_or_default())]);
            json!({"ev": "End", "d": d})
        }
        Ok(Outcome::Done(Ok(c))) => json!({"ev": "End", "d": judge_register(run, &p, &c, if p.mode.starts_with("extra") { Some(&extra) } else { None })}),
    }
}

/// C14: the credential's JSON parses back to an equal value (equality through re-serialisation and Debug)
fn reparses<T: serde::Serialize + serde::de::DeserializeOwned + std::fmt::Debug>(c: &T) -> bool {
    let Ok(text) = serde_json::to_string(c) else { return false };
    let Ok(back) = serde_json::from_str::<T>(&text) else { return false };
    serde_json::to_string(&back).ok().as_deref() == Some(&text) && format!("{back:?}") == format!("{c:?}")
}

fn uv_req(s: &str) -> UserVerificationRequirement {
    match s {
        "required" => UserVerificationRequirement::Required,
        "discouraged" => UserVerificationRequirement::Discouraged,
        _ => UserVerificationRequirement::Preferred,
    }
}

fn cbor_get<'a>(m: &'a Cbor, key: &str) -> Option<&'a Cbor> {
    m.as_map()?.iter().find(|(k, _)| k.as_text() == Some(key)).map(|(_, v)| v)
}

fn judge_register(run: &mut Run, p: &Prepared, c: &CreatedPublicKeyCredential, extra: Option<&Value>) -> Value {
    // the authenticator-level reading first, from the authenticator data the RP receives
    let mut d = Run::end_default();
    d["ok"] = json!(true);
    let bytes: &[u8] = &c.response.authenticator_data;
    let origin = p.origin.text();
    let (ty, chal_ok, origin_ok, cross, order_ok) = read_client_data(&c.response.client_data_json, &p.chal, &origin, extra);
    // attestation object: {"fmt": "none", "attStmt": {}, "authData": bytes}
    let att: Option<Cbor> = ciborium::de::from_reader(&c.response.attestation_object[..]).ok();
    let fmt = att.as_ref().and_then(|a| cbor_get(a, "fmt")).and_then(|v| v.as_text()).unwrap_or("?").to_string();
    let stmt_empty = att.as_ref().and_then(|a| cbor_get(a, "attStmt")).and_then(|v| v.as_map()).map(|m| m.is_empty()).unwrap_or(false);
    let inner = att.as_ref().and_then(|a| cbor_get(a, "authData")).and_then(|v| v.as_bytes()).cloned();
    let copies = inner.as_deref() == Some(bytes) && att.as_ref().and_then(|a| a.as_map()).map(|m| m.len() == 3).unwrap_or(false);
    let mut client = json!({"present": true, "cdType": ty, "chalOk": chal_ok, "originOk": origin_ok, "crossOrigin": cross,
                            "copiesEqual": copies, "attFmt": if stmt_empty { fmt } else { format!("{fmt}+stmt") },
                            "idOk": c.id == rp::b64url(&c.raw_id), "rawIdOk": false, "coseEqDer": false,
                            "algReported": c.response.public_key_algorithm, "credProps": "absent", "orderOk": order_ok,
                            "reparse": reparses::<CreatedPublicKeyCredential>(c)});
    client["credProps"] = json!(match c.client_extension_results.cred_props.as_ref().and_then(|p| p.discoverable) {
        Some(true) => "true",
        Some(false) => "false",
        None => if c.client_extension_results.cred_props.is_some() { "empty" } else { "absent" },
    });
    if let Some(ad) = rp::parse_authdata(bytes) {
        d["wf"] = json!(ad.well_formed);
        d["flags"] = json!(rp::flag_names(ad.flags));
        d["ctr"] = ctr_json(Some(ad.counter));
        d["rphash"] = json!(run.rp_of_hash(&ad.rp_hash));
        d["at"] = json!(ad.attested.is_some());
        d["ed"] = json!(ad.ext.is_some());
        d["fmt"] = json!("None");
        if let Some(at) = &ad.attested {
            let fresh = !run.seen_ids.iter().any(|i| *i == at.cred_id) && crate::cerrun::globally_fresh(&at.cred_id);
            run.seen_ids.push(at.cred_id.clone());
            let name = run.sh.lock().unwrap().dict.cred_name_or_new(&at.cred_id);
            d["cred"] = json!(run.sh.lock().unwrap().dict.cred_name(&c.raw_id));
            d["attid"] = json!(name);
            d["idlen"] = json!(at.cred_id.len());
            d["fresh"] = json!(fresh);
            client["rawIdOk"] = json!(at.cred_id[..] == c.raw_id[..]);
            if let Some(ci) = rp::cose_info(&at.cose) {
                let point = match (&ci.x, &ci.y) {
                    (Some(x), Some(y)) => rp::p256_point(x, y),
                    _ => None,
                };
                d["cose"] = json!({"labels": ci.labels, "kty": ci.kty.unwrap_or(0), "alg": ci.alg.unwrap_or(0),
                                   "crv": ci.crv.unwrap_or(0), "point": point.is_some() && ci.non_int_labels == 0});
                let der_point = c.response.public_key.as_ref().and_then(|k| rp::sec1_from_spki(k));
                client["coseEqDer"] = json!(point.is_some() && der_point == point);
                if let Some(pt) = &point {
                    run.sh.lock().unwrap().dict.pubkeys.push((name.clone(), pt.clone()));
                }
                if let Some(st) = run.stored(&at.cred_id) {
                    d["stored"] = cred_json(&run.sh.lock().unwrap().dict, &st);
                    d["keymatch"] = json!(crate::cerrun::private_matches(&st, point.as_deref()));
                }
            }
        }
        if let Some(pr) = c.client_extension_results.prf.as_ref() {
            d["prfEnabled"] = json!(match pr.enabled {
                Some(true) => "true",
                Some(false) => "false",
                None => "absent",
            });
            let cred = ad.attested.as_ref().and_then(|a| run.stored(&a.cred_id));
            d["prf1"] = run.prf_pair(pr.results.as_ref().map(|v| &v.first[..]), cred.as_ref());
            d["prf2"] = run.prf_pair(pr.results.as_ref().and_then(|v| v.second.as_ref()).map(|s| &s[..]), cred.as_ref());
        }
    } else {
        d["wf"] = json!(false);
    }
    d["client"] = client;
    d["leaks"] = run.leak_scan(vec![("webauthn created credential (JSON)".into(), serde_json::to_vec(c).unwrap_or_default()),
                                    ("webauthn created credential (Debug)".into(), format!("{c:?} {c:#?}").into_bytes())]);
    d
}

/// the serialised origin as `url` normalises it (what a relying party compares with)

fn authenticate(run: &mut Run, req: &Value) -> Value {
    let p = prepare(run, req);
    let rpid = rpid_string(run, req["rpid"].as_str().unwrap());
    run.sh.lock().unwrap().dict.rp_string(req["rp"].as_str().unwrap());
    let allow = if req["allowGiven"].as_bool().unwrap() { Some(run.descriptors(&req["allow"])) } else { None };
    let ext = extensions(run, req);
    let options = CredentialRequestOptions {
        public_key: PublicKeyCredentialRequestOptions {
            challenge: p.chal.clone().into(),
            timeout: None,
            rp_id: rpid,
            allow_credentials: allow,
            user_verification: uv_req(req["uvreq"].as_str().unwrap()),
            hints: None,
            // the attestation conveyance preference and the other hints of a request change nothing about the outcome
            attestation: match req["att"].as_str().unwrap_or("absent") {
                "indirect" => AttestationConveyancePreference::Indirect,
                "direct" => AttestationConveyancePreference::Direct,
                "enterprise" => AttestationConveyancePreference::Enterprise,
                "none" => AttestationConveyancePreference::None,
                _ => Default::default(),
            },
            attestation_formats: if req["att"].as_str().unwrap_or("absent") == "absent" { None } else { Some(vec![AttestationStatementFormatIdentifiers::Packed, AttestationStatementFormatIdentifiers::None]) },
            extensions: ext,
        },
    };
    let mut client = run.client.take().unwrap();
    let sh = run.sh.clone();
    let extra = extra_of(&p.mode);
    let out = util::catch(|| match p.mode.as_str() {
        "extra" | "extra0" => drive(client.authenticate(p.origin.as_origin(), options, DefaultClientDataWithExtra(extra.clone())), &sh),
        m if m.starts_with("hash") => drive(client.authenticate(p.origin.as_origin(), options, DefaultClientDataWithCustomHash(p.custom_hash.clone())), &sh),
        _ => drive(client.authenticate(p.origin.as_origin(), options, DefaultClientData), &sh),
    });
    run.client = Some(client);
    match out {
        Err(m) => json!({"ev": "Crash", "d": {"what": m}}),
        Ok(Outcome::Hung) => json!({"ev": "Crash", "d": {"what": "hung"}}),
        Ok(Outcome::Cancelled(_)) => json!({"ev": "Cancel", "d": {"after": sh.lock().unwrap().counted}}),
        Ok(Outcome::Done(Err(e))) => {
            let (name, code) = werr_name(&e);
            let mut d = Run::err_end(code);
            d["werr"] = json!(name);
            d["leaks"] = run.leak_scan(vec![("webauthn error (Debug)".into(), format!("{e:?}").into_bytes()),
                                            ("webauthn error (JSON)".into(), serde_json::to_vec(&e).unwrap_or_default())]);
            json!({"ev": "End", "d": d})
        }
        Ok(Outcome::Done(Ok(c))) => json!({"ev": "End", "d": judge_authenticate(run, &p, &c, if p.mode.starts_with("extra") { Some(&extra) } else { None })}),
    }
}

fn judge_authenticate(run: &mut Run, p: &Prepared, c: &AuthenticatedPublicKeyCredential, extra: Option<&Value>) -> Value {
    run.learn_missing_pubkeys();
    let mut d = Run::end_default();
    d["ok"] = json!(true);
    let bytes: &[u8] = &c.response.authenticator_data;
    let origin = p.origin.text();
    let (ty, chal_ok, origin_ok, cross, order_ok) = read_client_data(&c.response.client_data_json, &p.chal, &origin, extra);
    let client = json!({"present": true, "cdType": ty, "chalOk": chal_ok, "originOk": origin_ok, "crossOrigin": cross,
                        "copiesEqual": c.response.attestation_object.is_none(), "attFmt": "none",
                        "idOk": c.id == rp::b64url(&c.raw_id), "rawIdOk": true, "coseEqDer": true,
                        "algReported": 0, "credProps": if c.client_extension_results.cred_props.is_some() { "present" } else { "absent" },
                        "orderOk": order_ok, "reparse": reparses::<AuthenticatedPublicKeyCredential>(c)});
    if let Some(ad) = rp::parse_authdata(bytes) {
        d["wf"] = json!(ad.well_formed);
        d["flags"] = json!(rp::flag_names(ad.flags));
        d["ctr"] = ctr_json(Some(ad.counter));
        d["rphash"] = json!(run.rp_of_hash(&ad.rp_hash));
        d["at"] = json!(ad.attested.is_some());
        d["ed"] = json!(ad.ext.is_some());
        // the signature covers authenticatorData || SHA-256(clientDataJSON), or the caller-supplied hash
        let mut msg = bytes.to_vec();
        if p.mode.starts_with("hash") {
            msg.extend_from_slice(&p.custom_hash);
        } else {
            msg.extend_from_slice(&rp::sha256(&c.response.client_data_json));
        }
        let s = run.sh.lock().unwrap();
        d["cred"] = json!(s.dict.cred_name(&c.raw_id));
        d["user"] = json!(c.response.user_handle.as_ref().map(|u| s.dict.user_name(u)).unwrap_or_else(|| "none".to_string()));
        d["sigkey"] = json!(s
            .dict
            .pubkeys
            .iter()
            .find(|(_, pk)| rp::verify_der(pk, &msg, &c.response.signature))
            .map(|(n, _)| n.clone())
            .unwrap_or_else(|| "none".to_string()));
    } else {
        d["wf"] = json!(false);
    }
    let cred = run.stored(&c.raw_id);
    if let Some(st) = &cred {
        d["stored"] = cred_json(&run.sh.lock().unwrap().dict, st);
    }
    if let Some(pr) = c.client_extension_results.prf.as_ref() {
        d["prf1"] = run.prf_pair(pr.results.as_ref().map(|v| &v.first[..]), cred.as_ref());
        d["prf2"] = run.prf_pair(pr.results.as_ref().and_then(|v| v.second.as_ref()).map(|s| &s[..]), cred.as_ref());
    }
    d["client"] = client;
    d["leaks"] = run.leak_scan(vec![("webauthn assertion credential (JSON)".into(), serde_json::to_vec(c).unwrap_or_default()),
                                    ("webauthn assertion credential (Debug)".into(), format!("{c:?} {c:#?}").into_bytes())]);
    d
}

/// application parameter (32 bytes) of an abstract application; the passkey's RP ID is its base64url form
fn app_param(run: &mut Run, name: &str) -> [u8; 32] {
    let sh = run.sh.clone();
    let mut s = sh.lock().unwrap();
    if let Some((_, v)) = s.dict.rp.iter().find(|(n, _)| n == name) {
        return rp::b64url_decode(v).unwrap().try_into().unwrap();
    }
    let mut a = [0u8; 32];
    run.rng.fill_bytes(&mut a);
    s.dict.rp.push((name.to_string(), rp::b64url(&a)));
    a
}

/// key handle bytes of an abstract handle "kN" (N = its length)
fn handle_bytes(run: &mut Run, name: &str) -> Vec<u8> {
    let sh = run.sh.clone();
    let mut s = sh.lock().unwrap();
    if let Some((_, b)) = s.dict.cred.iter().find(|(n, _)| n == name) {
        return b.clone();
    }
    let n: usize = name[1..].parse().unwrap();
    let mut b = vec![0u8; n];
    run.rng.fill_bytes(&mut b);
    s.dict.cred.push((name.to_string(), b.clone()));
    b
}

fn u2f(run: &mut Run, op: &str, req: &Value) -> Value {
    use passkey_authenticator::U2fApi;
    use passkey_types::ctap2::Flags;
    use passkey_types::u2f::{AuthenticationParameter, AuthenticationRequest, RegisterRequest};
    let app = app_param(run, req["rp"].as_str().unwrap());
    let handle = handle_bytes(run, req["handle"].as_str().unwrap());
    let mut challenge = [0u8; 32];
    run.rng.fill_bytes(&mut challenge);
    let mut client = run.client.take().unwrap();
    let sh = run.sh.clone();
    let ev = if op == "reg" {
        let out = util::catch(|| drive(U2fApi::register(client.authenticator_mut(), RegisterRequest { challenge, application: app }, &handle), &sh));
        run.client = Some(client);
        match out {
            Err(m) => json!({"ev": "Crash", "d": {"what": m}}),
            Ok(Outcome::Hung) => json!({"ev": "Crash", "d": {"what": "hung"}}),
            Ok(Outcome::Cancelled(_)) => json!({"ev": "Cancel", "d": {"after": sh.lock().unwrap().counted}}),
            Ok(Outcome::Done(Err(e))) => json!({"ev": "End", "d": Run::err_end(u8::from(e))}),
            Ok(Outcome::Done(Ok(r))) => {
                let mut d = Run::end_default();
                d["ok"] = json!(true);
                d["ctr"] = ctr_json(Some(0));
                d["rphash"] = json!(req["rp"]);
                let encoded = passkey_types::u2f::RegisterResponse {
                    public_key: r.public_key,
                    key_handle: r.key_handle.clone(),
                    attestation_certificate: r.attestation_certificate.clone(),
                    signature: r.signature.clone(),
                }
                .encode();
                d["leaks"] = run.leak_scan(vec![("u2f register response (encoded)".into(), encoded)]);
                let name = run.sh.lock().unwrap().dict.cred_name(&r.key_handle);
                d["cred"] = json!(name);
                let point = rp::p256_point(&r.public_key.x, &r.public_key.y);
                // 0x00 || application || challenge || key handle || public key
                let mut msg = vec![0u8];
                msg.extend_from_slice(&app);
                msg.extend_from_slice(&challenge);
                msg.extend_from_slice(&r.key_handle);
                msg.extend(r.public_key.encode());
                let ok = point.as_ref().map(|p| rp::verify_der(p, &msg, &r.signature) || rp::verify_raw(p, &msg, &r.signature)).unwrap_or(false);
                d["sigkey"] = json!(if ok { name.clone() } else { "none".to_string() });
                if let Some(p) = &point {
                    let mut s = run.sh.lock().unwrap();
                    s.dict.pubkeys.retain(|(n, _)| *n != name);
                    s.dict.pubkeys.push((name.clone(), p.clone()));
                }
                if let Some(st) = run.stored(&r.key_handle) {
                    d["stored"] = cred_json(&run.sh.lock().unwrap().dict, &st);
                    d["keymatch"] = json!(crate::cerrun::private_matches(&st, point.as_deref()));
                }
                json!({"ev": "End", "d": d})
            }
        }
    } else {
        let counter = ctr_from(&req["counter"]).unwrap_or(0);
        let mut flags = Flags::empty();
        for f in req["presence"].as_array().unwrap() {
            match f.as_str().unwrap() {
                "UP" => flags |= Flags::UP,
                "UV" => flags |= Flags::UV,
                "BE" => flags |= Flags::BE,
                "BS" => flags |= Flags::BS,
                "AT" => flags |= Flags::AT,
                "ED" => flags |= Flags::ED,
                _ => {}
            }
        }
        // the control byte of the request (0x03 enforce presence and sign / 0x07 check only / 0x08 do not enforce)
        let parameter = match req["ctl"].as_str().unwrap_or("enforce") {
            "check" => AuthenticationParameter::CheckOnly,
            "dont" => AuthenticationParameter::DontEnforceUserPresence,
            _ => AuthenticationParameter::EnforceUserPresence,
        };
        let request = AuthenticationRequest { parameter, challenge, application: app, key_handle: handle.clone() };
        let out = util::catch(|| drive(U2fApi::authenticate(client.authenticator(), request, counter, flags), &sh));
        run.client = Some(client);
        match out {
            Err(m) => json!({"ev": "Crash", "d": {"what": m}}),
            Ok(Outcome::Hung) => json!({"ev": "Crash", "d": {"what": "hung"}}),
            Ok(Outcome::Cancelled(_)) => json!({"ev": "Cancel", "d": {"after": sh.lock().unwrap().counted}}),
            Ok(Outcome::Done(Err(e))) => json!({"ev": "End", "d": Run::err_end(u8::from(e))}),
            Ok(Outcome::Done(Ok(r))) => {
                let mut d = Run::end_default();
                d["ok"] = json!(true);
                d["ctr"] = ctr_json(Some(r.counter));
                d["flags"] = json!(rp::flag_names(r.user_presence.into()));
                d["rphash"] = json!(req["rp"]);
                let encoded = passkey_types::u2f::AuthenticationResponse { user_presence: r.user_presence, counter: r.counter, signature: r.signature.clone() }.encode();
                d["leaks"] = run.leak_scan(vec![("u2f authentication response (encoded)".into(), encoded)]);
                // application || presence byte || counter (big endian) || challenge
                let mut msg = app.to_vec();
                msg.push(r.user_presence.into());
                msg.extend_from_slice(&r.counter.to_be_bytes());
                msg.extend_from_slice(&challenge);
                let s = run.sh.lock().unwrap();
                d["cred"] = json!(s.dict.cred_name(&handle));
                d["sigkey"] = json!(s.dict.pubkeys.iter().find(|(_, pk)| rp::verify_der(pk, &msg, &r.signature)).map(|(n, _)| n.clone()).unwrap_or_else(|| "none".to_string()));
                drop(s);
                if let Some(st) = run.stored(&handle) {
                    d["stored"] = cred_json(&run.sh.lock().unwrap().dict, &st);
                }
                json!({"ev": "End", "d": d})
            }
        }
    };
    ev
}

pub fn ceremony(run: &mut Run, c: &Value) {
    let api = c["api"].as_str().unwrap();
    let op = c["op"].as_str().unwrap();
    let ev = match (api, op) {
        ("client", "mc") => register(run, &c["req"]),
        ("client", "ga") => authenticate(run, &c["req"]),
        ("u2f", op) => u2f(run, op, &c["req"]),
        _ => {
            eprintln!("pkverif: api {api}/{op} not implemented");
            std::process::exit(2);
        }
    };
    run.push(ev);
}
