//! Client-level (WebAuthn) and U2F ceremonies - filled in after the CTAP2 level.
use crate::cerrun::Run;
use serde_json::Value;

pub fn ceremony(_run: &mut Run, c: &Value) {
    eprintln!("pkverif: api {} not implemented yet", c["api"]);
    std::process::exit(2);
}
