//! A counting global allocator: largest single request and peak live bytes since the last reset (C15).
use std::alloc::{GlobalAlloc, Layout, System};
use std::sync::atomic::{AtomicUsize, Ordering::Relaxed};

pub struct Counting;

static MAX_SINGLE: AtomicUsize = AtomicUsize::new(0);
static LIVE: AtomicUsize = AtomicUsize::new(0);
static PEAK: AtomicUsize = AtomicUsize::new(0);
static BASE: AtomicUsize = AtomicUsize::new(0);

fn note(size: usize) {
    MAX_SINGLE.fetch_max(size, Relaxed);
    let live = LIVE.fetch_add(size, Relaxed) + size;
    PEAK.fetch_max(live, Relaxed);
}

// SAFETY: defers to the system allocator; only counters are added
unsafe impl GlobalAlloc for Counting {
    unsafe fn alloc(&self, l: Layout) -> *mut u8 {
        note(l.size());
        System.alloc(l)
    }
    unsafe fn dealloc(&self, p: *mut u8, l: Layout) {
        LIVE.fetch_sub(l.size(), Relaxed);
        System.dealloc(p, l)
    }
    unsafe fn alloc_zeroed(&self, l: Layout) -> *mut u8 {
        note(l.size());
        System.alloc_zeroed(l)
    }
    unsafe fn realloc(&self, p: *mut u8, l: Layout, new: usize) -> *mut u8 {
        LIVE.fetch_sub(l.size(), Relaxed);
        note(new);
        System.realloc(p, l, new)
    }
}

pub fn reset() {
    MAX_SINGLE.store(0, Relaxed);
    let live = LIVE.load(Relaxed);
    BASE.store(live, Relaxed);
    PEAK.store(live, Relaxed);
}

/// (largest single request, peak live bytes above the level at reset)
pub fn read() -> (usize, usize) {
    (MAX_SINGLE.load(Relaxed), PEAK.load(Relaxed).saturating_sub(BASE.load(Relaxed)))
}
