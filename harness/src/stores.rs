//! C05 (c): `find_credentials` of every shipped store and lock wrapper, on the contents and lists enumerated by
//! StoreContract.tla, recorded for judgement against the documented contract.
use crate::cer::{self, drive, new_shared, Outcome};
use crate::util::{self, Args, Sink};
use passkey_authenticator::{CredentialStore, MemoryStore};
use passkey_types::webauthn::{PublicKeyCredentialDescriptor, PublicKeyCredentialType};
use passkey_types::Passkey;
use serde_json::{json, Value};
use std::sync::Arc;
use tokio::sync::{Mutex, RwLock};

const KINDS: [&str; 10] = [
    "MemoryStore", "Option<Passkey>", "Arc<Mutex<MemoryStore>>", "Arc<RwLock<MemoryStore>>", "Mutex<MemoryStore>",
    "RwLock<MemoryStore>", "Arc<Mutex<Option<Passkey>>>", "Arc<RwLock<Option<Passkey>>>", "Mutex<Option<Passkey>>",
    "RwLock<Option<Passkey>>",
];

async fn find<S: CredentialStore<PasskeyItem = Passkey>>(
    s: &S,
    ids: Option<&[PublicKeyCredentialDescriptor]>,
    rp: &str,
) -> Result<Vec<Passkey>, u8> {
    s.find_credentials(ids, rp).await.map_err(u8::from)
}

pub fn main(args: &Args) {
    util::quiet_panics();
    let cases: Vec<Value> = serde_json::from_str(&std::fs::read_to_string(args.req("cases")).expect("cases")).expect("json");
    let mut out = Sink::create(args.req("out"));
    let mut rng = util::rng(args.seed());
    let sh = new_shared();
    for case in &cases {
        // concrete credentials for this content
        let creds: Vec<Passkey> = {
            let mut s = sh.lock().unwrap();
            case["content"].as_array().unwrap().iter().map(|r| cer::make_passkey(&mut s.dict, r, &mut rng)).collect()
        };
        let ids: Vec<PublicKeyCredentialDescriptor> = {
            let mut s = sh.lock().unwrap();
            case["ids"]
                .as_array()
                .unwrap()
                .iter()
                .map(|n| PublicKeyCredentialDescriptor {
                    ty: PublicKeyCredentialType::PublicKey,
                    id: s.dict.cred_bytes(n.as_str().unwrap(), &mut rng).into(),
                    transports: None,
                })
                .collect()
        };
        let given = case["given"].as_bool().unwrap();
        let rp = sh.lock().unwrap().dict.rp_string(case["rp"].as_str().unwrap());
        let idsopt = if given { Some(&ids[..]) } else { None };
        let mem: MemoryStore = creds.iter().map(|p| (p.credential_id.to_vec(), p.clone())).collect();
        let slot: Option<Passkey> = creds.first().cloned();
        for kind in KINDS {
            let is_slot = kind.contains("Option");
            let res = util::catch(|| match kind {
                "MemoryStore" => drive(find(&mem, idsopt, &rp), &sh),
                "Option<Passkey>" => drive(find(&slot, idsopt, &rp), &sh),
                "Arc<Mutex<MemoryStore>>" => drive(find(&Arc::new(Mutex::new(mem.clone())), idsopt, &rp), &sh),
                "Arc<RwLock<MemoryStore>>" => drive(find(&Arc::new(RwLock::new(mem.clone())), idsopt, &rp), &sh),
                "Mutex<MemoryStore>" => drive(find(&Mutex::new(mem.clone()), idsopt, &rp), &sh),
                "RwLock<MemoryStore>" => drive(find(&RwLock::new(mem.clone()), idsopt, &rp), &sh),
                "Arc<Mutex<Option<Passkey>>>" => drive(find(&Arc::new(Mutex::new(slot.clone())), idsopt, &rp), &sh),
                "Arc<RwLock<Option<Passkey>>>" => drive(find(&Arc::new(RwLock::new(slot.clone())), idsopt, &rp), &sh),
                "Mutex<Option<Passkey>>" => drive(find(&Mutex::new(slot.clone()), idsopt, &rp), &sh),
                _ => drive(find(&RwLock::new(slot.clone()), idsopt, &rp), &sh),
            });
            let (ok, err, found, crash) = match res {
                Ok(Outcome::Done(Ok(v))) => {
                    let s = sh.lock().unwrap();
                    (true, 0, v.iter().map(|p| s.dict.cred_name(&p.credential_id)).collect::<Vec<_>>(), false)
                }
                Ok(Outcome::Done(Err(b))) => (false, b, vec![], false),
                _ => (false, 0, vec![], true),
            };
            out.emit(json!({"store": kind, "slot": is_slot, "content": case["content"], "ids": case["ids"], "given": given,
                            "rp": case["rp"], "ok": ok, "err": err, "found": found, "crash": crash}));
        }
    }
    let n = out.finish();
    println!("{}", json!({"cases": cases.len(), "events": n, "stores": KINDS.len()}));
}
