//! CTAPHID conformance: drives `Message::new/send` and `ChannelHandler::handle_packet`
//! and records what happened as events for HidTrace.tla.
//!
//! The harness owns an independent header decoder (`parse_packet`) so that what the sender
//! wrote is observed without using the receiver under test.
use crate::util::{self, Args, Sink};
use passkey_transports::hid::{ChannelHandler, Command, Message};
use rand::{seq::SliceRandom, Rng, RngCore};
use serde_json::{json, Value};

const INIT_CAP: usize = 57;
const CONT_CAP: usize = 59;
const COMMANDS: [Command; 9] = [
    Command::Msg,
    Command::Cbor,
    Command::Init,
    Command::Ping,
    Command::Cancel,
    Command::Err,
    Command::KeepAlive,
    Command::Wink,
    Command::Lock,
];

#[allow(clippy::as_conversions)]
fn cmd_num(c: Command) -> u8 {
    c as u8
}

/// One 64-byte (or other) packet as seen by the harness's own decoder.
#[derive(Clone)]
struct Pkt {
    bytes: Vec<u8>,
    kind: &'static str,
    cmd: u8,
    bcnt: usize,
    seq: u8,
    chan: u32,
}

fn parse_packet(b: &[u8]) -> Option<Pkt> {
    if b.len() < 5 {
        return None;
    }
    let chan = u32::from_ne_bytes(b[0..4].try_into().unwrap());
    if b[4] & 0x80 != 0 {
        if b.len() < 7 {
            return None;
        }
        Some(Pkt {
            bytes: b.to_vec(),
            kind: "init",
            cmd: b[4] & 0x7f,
            bcnt: usize::from(u16::from_be_bytes([b[5], b[6]])),
            seq: 0,
            chan,
        })
    } else {
        Some(Pkt {
            bytes: b.to_vec(),
            kind: "cont",
            cmd: 0,
            bcnt: 0,
            seq: b[4],
            chan,
        })
    }
}

struct SentMsg {
    id: u64,
    chan: u32,
    cmd: Command,
    payload: Vec<u8>,
    /// packets with the slice of the payload each carries
    packets: Vec<(Pkt, usize, usize)>, // (packet, off, dlen)
}

/// Call Message::new + send, decode what was written, and describe it.
fn do_send(id: u64, c: u64, chan: u32, cmd: Command, payload: Vec<u8>) -> (Value, Option<SentMsg>) {
    let len = payload.len();
    let res = util::catch(|| {
        Message::new(chan, cmd, &payload).ok().map(|m| {
            let mut out = Vec::new();
            m.send(&mut out).map(|_| out)
        })
    });
    let mut ev = json!({"ev":"Send","c":c,"id":id,"cmd":cmd_num(cmd),"len":len,
                        "res":"refused","nbytes":0,"pk":[],"cut":0});
    let bytes = match res {
        Err(_) => {
            ev["res"] = json!("crash");
            return (ev, None);
        }
        Ok(None) => return (ev, None),
        Ok(Some(Err(_))) => {
            ev["res"] = json!("ioerr");
            return (ev, None);
        }
        Ok(Some(Ok(b))) => b,
    };
    ev["res"] = json!("ok");
    ev["nbytes"] = json!(bytes.len());
    let mut pk = vec![];
    let mut packets = vec![];
    let mut off = 0usize;
    let mut total = 0usize;
    for (i, chunk) in bytes.chunks(64).enumerate() {
        let Some(p) = parse_packet(chunk) else {
            pk.push(json!({"kind":"bad","seq":0,"bcnt":0,"dlen":0,"off":0,"size":chunk.len(),
                           "chan":false,"cmd":false,"data":false,"pad":false}));
            continue;
        };
        if i == 0 {
            total = p.bcnt;
        }
        let (hdr, cap) = if p.kind == "init" { (7, INIT_CAP) } else { (5, CONT_CAP) };
        let dlen = cap.min(total.saturating_sub(off)).min(chunk.len().saturating_sub(hdr));
        let data_ok = off + dlen <= payload.len() && chunk[hdr..hdr + dlen] == payload[off..off + dlen];
        let pad_ok = chunk[hdr + dlen..].iter().all(|b| *b == 0);
        pk.push(json!({"kind":p.kind,"seq":p.seq,"bcnt":p.bcnt,"dlen":dlen,"off":off,
                       "size":chunk.len(),"chan":p.chan == chan,
                       "cmd": p.kind == "cont" || p.cmd == cmd_num(cmd),
                       "data":data_ok,"pad":pad_ok}));
        packets.push((p, off, dlen));
        off += dlen;
    }
    ev["pk"] = Value::Array(pk);
    (
        ev,
        Some(SentMsg {
            id,
            chan,
            cmd,
            payload,
            packets,
        }),
    )
}

/// Feed one packet; describe the outcome relative to the messages sent in this run.
fn do_feed(
    h: &mut ChannelHandler,
    c: u64,
    pkt: &Pkt,
    id: u64,
    off: usize,
    dlen: usize,
    sent: &[SentMsg],
    chans: &[(u64, u32)],
) -> (Value, bool) {
    let hdr = if pkt.kind == "init" { 7 } else { 5 };
    let avail = pkt.bytes.len().saturating_sub(hdr);
    let mut ev = json!({"ev":"Feed","c":c,"kind":pkt.kind,"cmd":pkt.cmd,"bcnt":pkt.bcnt,"seq":pkt.seq,
                        "avail":avail,"id":id,"off":off,"dlen":dlen,
                        "out":"none","dchan":-1,"dcmd":0,"dlen2":0,"peq":[],"dseq":0});
    match util::catch(|| h.handle_packet(&pkt.bytes)) {
        Err(_) => {
            ev["out"] = json!("crash");
            (ev, true)
        }
        Ok(None) => (ev, false),
        Ok(Some(m)) => {
            ev["out"] = json!("msg");
            ev["dchan"] = json!(chans
                .iter()
                .find(|(_, real)| *real == m.channel)
                .map(|(a, _)| *a as i64)
                .unwrap_or(-1));
            ev["dcmd"] = json!(cmd_num(m.command));
            ev["dlen2"] = json!(m.payload.len());
            ev["dseq"] = json!(m.sequence);
            // every sent message whose payload the delivered payload equals (identical payloads
            // are possible: empty, all-zero); the specification decides which one it must be
            let eq: Vec<u64> = sent
                .iter()
                .filter(|s| s.payload == m.payload && m.payload_len == m.payload.len())
                .map(|s| s.id)
                .collect();
            ev["peq"] = json!(eq);
            (ev, false)
        }
    }
}

fn real_chan(rng: &mut impl Rng, taken: &[(u64, u32)]) -> u32 {
    loop {
        let v: u32 = match rng.gen_range(0..6) {
            0 => 0,
            1 => 0xffff_ffff,
            2 => 1,
            3 => 0x8000_0000,
            _ => rng.gen(),
        };
        if !taken.iter().any(|(_, r)| *r == v) {
            return v;
        }
    }
}

fn payload(rng: &mut impl RngCore, len: usize, style: u32) -> Vec<u8> {
    let mut v = vec![0u8; len];
    match style % 4 {
        0 => rng.fill_bytes(&mut v),
        1 => v.iter_mut().for_each(|b| *b = 0),          // all zero: padding-like
        2 => v.iter_mut().for_each(|b| *b = 0xff),
        _ => {
            rng.fill_bytes(&mut v);
            // zero tail: a truncated copy would still "look" padded
            let n = v.len();
            v[n - n / 3..].iter_mut().for_each(|b| *b = 0);
        }
    }
    v
}

/// Run one schedule: `plan[c] = [(id, cmd_index, len, cut)]`, strays, sched = channel picks.  A message with
/// cut = k > 0 is abandoned by its sender after its first k packets: only those reach the receiver.
fn run_schedule(
    out: &mut Sink,
    rng: &mut impl Rng,
    run: u64,
    plan: &[(u64, Vec<(u64, u64, usize, usize)>)],
    strays: &[u64],
    sched: &[u64],
) {
    out.emit(json!({"ev":"Reset","run":run,"initcap":INIT_CAP,"contcap":CONT_CAP,"wf":true}));
    let mut chans: Vec<(u64, u32)> = vec![];
    for (c, _) in plan {
        let r = real_chan(rng, &chans);
        chans.push((*c, r));
    }
    for c in strays {
        let r = real_chan(rng, &chans);
        chans.push((*c, r));
    }
    let mut sent: Vec<SentMsg> = vec![];
    let mut streams: Vec<(u64, Vec<(Pkt, u64, usize, usize)>)> = vec![];
    for (c, msgs) in plan {
        let real = chans.iter().find(|(a, _)| a == c).unwrap().1;
        let mut stream = vec![];
        for (id, cmdi, len, cut) in msgs {
            let cmd = COMMANDS[(*cmdi as usize + rng.gen_range(0..9)) % 9];
            let style = rng.gen();
            let (mut ev, m) = do_send(*id, *c, real, cmd, payload(rng, *len, style));
            let cut = if m.as_ref().map_or(false, |m| *cut < m.packets.len()) { *cut } else { 0 };
            ev["cut"] = json!(cut);
            out.emit(ev);
            if let Some(m) = m {
                for (k, (p, off, dlen)) in m.packets.iter().enumerate() {
                    if cut > 0 && k >= cut {
                        break;
                    }
                    stream.push((p.clone(), *id, *off, *dlen));
                }
                sent.push(m);
            }
        }
        streams.push((*c, stream));
    }
    for c in strays {
        let real = chans.iter().find(|(a, _)| a == c).unwrap().1;
        let mut stream = vec![];
        for seq in 0..2u8 {
            let mut b = vec![0u8; 64];
            b[0..4].copy_from_slice(&real.to_ne_bytes());
            b[4] = seq;
            rng.fill_bytes(&mut b[5..]);
            stream.push((parse_packet(&b).unwrap(), 0u64, 0usize, CONT_CAP));
        }
        streams.push((*c, stream));
    }
    let mut pos: Vec<usize> = vec![0; streams.len()];
    let mut h = ChannelHandler::default();
    for c in sched {
        let i = streams.iter().position(|(a, _)| a == c).expect("scheduled channel");
        if pos[i] >= streams[i].1.len() {
            continue;
        }
        let (p, id, off, dlen) = streams[i].1[pos[i]].clone();
        pos[i] += 1;
        let (ev, crashed) = do_feed(&mut h, *c, &p, id, off, dlen, &sent, &chans);
        out.emit(ev);
        if crashed {
            break;
        }
    }
}

/// The model fixes the number of packets of a message; the fill of its last packet is varied here
/// (same packet count, so the exported schedule still fits).
fn vary_len(rng: &mut impl Rng, vary: bool, len: usize) -> usize {
    if !vary {
        return len;
    }
    if len <= INIT_CAP {
        return *[0, 1, rng.gen_range(0..=INIT_CAP), INIT_CAP].choose(rng).unwrap();
    }
    let k = (len - INIT_CAP + CONT_CAP - 1) / CONT_CAP; // continuation packets
    let base = INIT_CAP + CONT_CAP * (k - 1);
    base + *[1, rng.gen_range(1..=CONT_CAP), CONT_CAP].choose(rng).unwrap()
}

/// Behaviours exported by TLC from HidMC (one JSON object per line).
fn replay(args: &Args) {
    let beh = util::read_ndjson(args.req("in"));
    let mut out = Sink::create(args.req("out"));
    let mut rng = util::rng(args.seed());
    let vary = args.get("vary-fill").is_some();
    for (run, b) in beh.iter().enumerate() {
        let mut plan = vec![];
        // ToJson renders a function with an integer domain 1..n as an array, otherwise as an object
        match &b["plan"] {
            Value::Object(m) => {
                for (c, msgs) in m {
                    plan.push((c.parse::<u64>().unwrap(), msgs.clone()));
                }
            }
            Value::Array(a) => {
                for (i, msgs) in a.iter().enumerate() {
                    plan.push((i as u64 + 1, msgs.clone()));
                }
            }
            _ => panic!("plan"),
        }
        let plan: Vec<(u64, Vec<(u64, u64, usize, usize)>)> = plan
            .into_iter()
            .map(|(c, msgs)| {
                (
                    c,
                    msgs.as_array()
                        .unwrap()
                        .iter()
                        .map(|m| {
                            (
                                m["id"].as_u64().unwrap(),
                                m["cmd"].as_u64().unwrap(),
                                vary_len(&mut rng, vary, m["len"].as_u64().unwrap() as usize),
                                m["cut"].as_u64().unwrap_or(0) as usize,
                            )
                        })
                        .collect(),
                )
            })
            .collect();
        let strays: Vec<u64> = b["strays"].as_array().unwrap().iter().map(|v| v.as_u64().unwrap()).collect();
        let sched: Vec<u64> = b["sched"].as_array().unwrap().iter().map(|v| v.as_u64().unwrap()).collect();
        run_schedule(&mut out, &mut rng, run as u64, &plan, &strays, &sched);
    }
    let n = out.finish();
    println!("{}", json!({"behaviours": beh.len(), "events": n}));
}

/// Sender only: one run per payload length.
fn lens(args: &Args) {
    let mut out = Sink::create(args.req("out"));
    let mut rng = util::rng(args.seed());
    let mut list: Vec<usize> = vec![];
    for part in args.req("lens").split(',') {
        if let Some((a, b)) = part.split_once("..") {
            let (a, b): (usize, usize) = (a.parse().unwrap(), b.parse().unwrap());
            list.extend(a..=b);
        } else {
            list.push(part.parse().unwrap());
        }
    }
    out.emit(json!({"ev":"Reset","run":0,"initcap":INIT_CAP,"contcap":CONT_CAP,"wf":true}));
    for (i, len) in list.iter().enumerate() {
        let chan = real_chan(&mut rng, &[]);
        let cmd = COMMANDS[i % 9];
        let style = rng.gen();
        let (ev, _) = do_send(i as u64, 1, chan, cmd, payload(&mut rng, *len, style));
        out.emit(ev);
    }
    let n = out.finish();
    println!("{}", json!({"lengths": list.len(), "events": n}));
}

/// Random interleavings of long streams (2-4 channels, several messages each).
fn random(args: &Args) {
    let mut out = Sink::create(args.req("out"));
    let mut rng = util::rng(args.seed());
    let runs = args.num("runs", 100);
    let maxlen = args.num("maxlen", 7608) as usize;
    for run in 0..runs {
        let nch = rng.gen_range(2..=4u64);
        let mut plan = vec![];
        let mut sched = vec![];
        for c in 1..=nch {
            let nm = rng.gen_range(1..=3u64);
            let mut msgs = vec![];
            for k in 1..=nm {
                let len = match rng.gen_range(0..10) {
                    0 => 0,
                    1 => INIT_CAP,
                    2 => INIT_CAP + 1,
                    3 => INIT_CAP + CONT_CAP * rng.gen_range(1..=6),
                    4 => (INIT_CAP + CONT_CAP * rng.gen_range(1..=6) + 1).min(maxlen),
                    5 => maxlen,
                    _ => rng.gen_range(0..=maxlen.min(1500)),
                };
                let npk = 1 + if len > INIT_CAP { (len - INIT_CAP + CONT_CAP - 1) / CONT_CAP } else { 0 };
                // one message in eight is abandoned by its sender somewhere before its last packet
                let cut = if npk > 1 && len <= maxlen.min(7608) && rng.gen_range(0..8) == 0 { rng.gen_range(1..npk) } else { 0 };
                for _ in 0..(if cut > 0 { cut } else { npk }) {
                    sched.push(c);
                }
                msgs.push((c * 10 + k, rng.gen_range(0..9u64), len, cut));
            }
            plan.push((c, msgs));
        }
        let strays: Vec<u64> = if rng.gen_bool(0.5) { vec![9] } else { vec![] };
        for _ in 0..strays.len() * 2 {
            sched.push(9);
        }
        sched.shuffle(&mut rng);
        run_schedule(&mut out, &mut rng, run, &plan, &strays, &sched);
    }
    let n = out.finish();
    println!("{}", json!({"runs": runs, "events": n}));
}

pub fn main(args: &Args) {
    util::quiet_panics();
    match args.pos.first().map(|s| s.as_str()) {
        Some("replay") => replay(args),
        Some("lens") => lens(args),
        Some("random") => random(args),
        _ => {
            eprintln!("usage: pkverif hid replay|lens|random --out FILE ...");
            std::process::exit(2)
        }
    }
}
