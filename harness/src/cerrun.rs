//! Replays behaviours of spec/Ceremony.tla on the real authenticator / client and records what happened.
//!
//! A behaviour (one JSON object, printed by TLC or produced by a random driver) is
//!   {cfg, store: [cred], cers: [{api, op, req, env}]}
//! The run starts with a Reset event (configuration + abstract snapshot of the store), then for every ceremony a
//! Begin event, the Prompt/Store events emitted by the traced user validation and store at their linearization
//! points, and an End, Cancel or Crash event carrying the relying-party role's verdicts.
use crate::cer::*;
use crate::rp;
use crate::util::{self, Args, Sink};
use coset::iana;
use passkey_authenticator::{extensions::HmacSecretConfig, Authenticator, CredentialIdLength, Ctap2Api};
use passkey_types::ctap2::extensions::{AuthenticatorPrfInputs, AuthenticatorPrfValues};
use passkey_types::ctap2::{get_assertion, make_credential, Aaguid, StatusCode};
use passkey_types::webauthn::{
    PublicKeyCredentialDescriptor, PublicKeyCredentialParameters, PublicKeyCredentialType, PublicKeyCredentialUserEntity,
};
use passkey_types::{Bytes, Passkey};
use rand::{Rng, RngCore};
use serde_json::{json, Value};
use std::collections::HashMap;

pub type Auth = Authenticator<TStore, TUv>;
pub type Cl = passkey_client::Client<TStore, TUv, public_suffix::PublicSuffixList>;

pub struct Run {
    pub sh: Sh,
    pub client: Option<Cl>,
    pub cfg: Value,
    pub rng: rand::rngs::StdRng,
    /// salts / challenges of the current ceremony by abstract name
    pub salts: Vec<(String, [u8; 32])>,
    pub cdh: Vec<u8>,
    pub seen_ids: Vec<Vec<u8>>,
    /// concurrent mode: the shared store's contents, read through the lock wrapper
    pub extern_contents: Option<Vec<Passkey>>,
    /// the descriptors of the current request carry an unknown credential type
    pub unknown_type: bool,
    pub run_idx: u64,
    /// the client request in preparation carries both `prf` and `prfAlreadyHashed`
    pub both_members: bool,
}

fn alg_of(name: &str) -> iana::Algorithm {
    match name {
        "ES256" => iana::Algorithm::ES256,
        "RS256" => iana::Algorithm::RS256,
        "EdDSA" => iana::Algorithm::EdDSA,
        "HMAC" => iana::Algorithm::HMAC_256_256,
        "A128GCM" => iana::Algorithm::A128GCM,
        "zero" => iana::Algorithm::Reserved,
        _ => iana::Algorithm::ES512,
    }
}

pub fn build_auth(cfg: &Value, creds: Vec<Passkey>, sh: &Sh) -> Auth {
    let store = new_store_full(
        cfg["storeKind"].as_str().unwrap(),
        cfg["wrap"].as_str().unwrap_or("none"),
        cfg["disc"].as_str().unwrap(),
        cfg["emptyAsErr"].as_bool().unwrap(),
        cfg["order"].as_str() == Some("newest"),
        creds,
        sh,
    );
    let uv = TUv { sh: sh.clone(), uv_cap: uv_cap_of(cfg["uvCap"].as_str().unwrap()), up_cap: cfg["upCap"].as_bool().unwrap() };
    build_auth_with(cfg, store, uv)
}

/// An authenticator over any store, configured from the abstract configuration record.
pub fn build_auth_with<S: passkey_authenticator::CredentialStore>(cfg: &Value, store: S, uv: TUv) -> Authenticator<S, TUv> {
    let mut aaguid = [0u8; 16];
    aaguid.copy_from_slice(b"pkverif-aaguid-1");
    let mut a = Authenticator::new(Aaguid(aaguid), store, uv);
    a.set_make_credentials_with_signature_counter(cfg["counterOn"].as_bool().unwrap());
    a.set_make_credential_id_length(CredentialIdLength::from(cfg["idLen"].as_u64().unwrap() as u8));
    // which transports the authenticator is built with: the default, none at all, or a single one
    a = match cfg["tr"].as_str().unwrap_or("default") {
        "empty" => a.transports(vec![]),
        "usb" => a.transports(vec![passkey_types::webauthn::AuthenticatorTransport::Usb]),
        _ => a,
    };
    let mc = cfg["mc"].as_bool().unwrap();
    let with = |c: HmacSecretConfig| if mc { c.enable_on_make_credential() } else { c };
    match cfg["hmac"].as_str().unwrap() {
        "uvonly" => a.hmac_secret(with(HmacSecretConfig::new_with_uv_only())),
        "withoutuv" => a.hmac_secret(with(HmacSecretConfig::new_without_uv())),
        _ => a,
    }
}


impl Run {
    pub fn new(seed: u64) -> Self {
        Run { sh: new_shared(), client: None, cfg: Value::Null, rng: util::rng(seed), salts: vec![], cdh: vec![], seen_ids: vec![], extern_contents: None, unknown_type: false, run_idx: 0, both_members: false }
    }

    pub fn reset(&mut self, run: u64, cfg: &Value, store: &Value) {
        self.run_idx = run;
        self.sh = new_shared();
        self.cfg = cfg.clone();
        let mut creds = vec![];
        {
            let mut s = self.sh.lock().unwrap();
            for rec in store.as_array().unwrap() {
                let p = make_passkey(&mut s.dict, rec, &mut self.rng);
                creds.push(p);
            }
            // make sure both relying parties exist in the dictionary even when the store is empty
            s.dict.rp_string("r1");
            s.dict.rp_string("r2");
        }
        self.seen_ids = creds.iter().map(|p| p.credential_id.to_vec()).collect();
        let auth = build_auth(cfg, creds, &self.sh);
        let snap = {
            let s = self.sh.lock().unwrap();
            auth.store().snapshot(&s.dict)
        };
        self.client = Some(passkey_client::Client::new(auth).allows_insecure_localhost(cfg["localhost"].as_bool().unwrap_or(false)));
        self.sh.lock().unwrap().record(json!({"ev": "Reset", "run": run, "cfg": cfg, "store": snap}));
    }

    fn salt(&mut self, name: &str) -> [u8; 32] {
        if let Some((_, s)) = self.salts.iter().find(|(n, _)| n == name) {
            return *s;
        }
        let mut s = [0u8; 32];
        self.rng.fill_bytes(&mut s);
        // every fourth run uses degenerate values for the request-wide evaluation inputs (all zero / all ones): a
        // caller chooses its salts, and a secret that is derivable from another through such an input must show
        match (self.run_idx % 4, name) {
            (1, "e2") | (2, "e1") => s = [0u8; 32],
            (2, "e2") => s = [0xffu8; 32],
            // ... or values everybody knows: the id of a stored credential (zero-padded / cut to 32 bytes), the SHA-256
            // of a relying-party id
            (3, "e1") => {
                let ids = self.seen_ids.clone();     // the store's initial ids and those created so far
                if let Some(id) = ids.last() {
                    s = [0u8; 32];
                    let n = id.len().min(32);
                    s[..n].copy_from_slice(&id[..n]);
                }
            }
            (3, "e2") => s = crate::rp::sha256(&self.sh.lock().unwrap().dict.rp_string("r1").as_bytes()),
            _ => {}
        }
        self.salts.push((name.to_string(), s));
        s
    }

    fn prf_values(&mut self, prefix: &str, n: &str) -> Option<AuthenticatorPrfValues> {
        match n {
            "one" => Some(AuthenticatorPrfValues { first: self.salt(&format!("{prefix}1")), second: None }),
            "two" => Some(AuthenticatorPrfValues {
                first: self.salt(&format!("{prefix}1")),
                second: Some(self.salt(&format!("{prefix}2"))),
            }),
            _ => None,
        }
    }

    fn prf_inputs(&mut self, prf: &Value) -> Option<AuthenticatorPrfInputs> {
        if !prf["given"].as_bool().unwrap() {
            return None;
        }
        let eval = self.prf_values("e", prf["eval"].as_str().unwrap());
        let eval_by_credential = if prf["byCredGiven"].as_bool().unwrap() {
            let mut m = HashMap::new();
            for e in prf["byCred"].as_array().unwrap() {
                let name = e["id"].as_str().unwrap().to_string();
                let id = {
                    let sh = self.sh.clone();
                    let mut s = sh.lock().unwrap();
                    s.dict.cred_bytes(&name, &mut self.rng)
                };
                let v = self.prf_values(&format!("{name}."), e["n"].as_str().unwrap()).unwrap();
                m.insert(Bytes::from(id), v);
            }
            Some(m)
        } else {
            None
        };
        Some(AuthenticatorPrfInputs { eval, eval_by_credential })
    }

    pub fn descriptors(&mut self, names: &Value) -> Vec<PublicKeyCredentialDescriptor> {
        let unknown_type = self.unknown_type;
        names
            .as_array()
            .unwrap()
            .iter()
            .map(|n| {
                let sh = self.sh.clone();
                let mut s = sh.lock().unwrap();
                PublicKeyCredentialDescriptor {
                    // the request may present its descriptors with a type string this library does not know
                    ty: if unknown_type { PublicKeyCredentialType::Unknown } else { PublicKeyCredentialType::PublicKey },
                    id: s.dict.cred_bytes(n.as_str().unwrap(), &mut self.rng).into(),
                    transports: None,
                }
            })
            .collect()
    }

    pub fn mc_request(&mut self, req: &Value) -> make_credential::Request {
        let (rp, user) = {
            let sh = self.sh.clone();
            let mut s = sh.lock().unwrap();
            (s.dict.rp_string(req["rp"].as_str().unwrap()), s.dict.user_bytes(req["user"].as_str().unwrap(), &mut self.rng))
        };
        let hs = match req["hs"].as_str().unwrap() {
            "true" => Some(true),
            "false" => Some(false),
            _ => None,
        };
        let prf = self.prf_inputs(&req["prf"]);
        let extensions = if hs.is_none() && prf.is_none() && !req["extEmpty"].as_bool().unwrap_or(false) {
            None
        } else {
            Some(make_credential::ExtensionInputs { hmac_secret: hs, hmac_secret_mc: None, prf })
        };
        // the client-data hash is whatever bytes the caller sends ("h<N>": N bytes; "h1": a SHA-256 sized one)
        let n: usize = req["cdh"].as_str().and_then(|t| t.strip_prefix('h')).and_then(|t| t.parse().ok()).filter(|n| *n != 1).unwrap_or(32);
        self.cdh = (0..n).map(|_| self.rng.gen()).collect();
        make_credential::Request {
            client_data_hash: self.cdh.clone().into(),
            rp: make_credential::PublicKeyCredentialRpEntity { id: rp, name: Some("Example RP".into()) },
            user: PublicKeyCredentialUserEntity { id: user.into(), name: "wendy".into(), display_name: "Wendy Appleseed".into() },
            pub_key_cred_params: req["algs"]
                .as_array()
                .unwrap()
                .iter()
                .map(|a| {
                    // "u:<alg>": an entry whose credential type string this library does not know
                    let name = a.as_str().unwrap();
                    match name.strip_prefix("u:") {
                        Some(n) => PublicKeyCredentialParameters { ty: PublicKeyCredentialType::Unknown, alg: alg_of(n) },
                        None => PublicKeyCredentialParameters { ty: PublicKeyCredentialType::PublicKey, alg: alg_of(name) },
                    }
                })
                .collect(),
            exclude_list: if req["excludeGiven"].as_bool().unwrap() { Some(self.descriptors(&req["exclude"])) } else { None },
            extensions,
            options: make_credential::Options { rk: req["rk"].as_bool().unwrap(), up: req["up"].as_bool().unwrap(), uv: req["uv"].as_bool().unwrap() },
            pin_auth: if req["pinAuth"].as_bool().unwrap() { Some(vec![1u8; 16].into()) } else { None },
            pin_protocol: None,
        }
    }

    pub fn ga_request(&mut self, req: &Value) -> get_assertion::Request {
        let rp = {
            let sh = self.sh.clone();
            let mut s = sh.lock().unwrap();
            s.dict.rp_string(req["rp"].as_str().unwrap())
        };
        let prf = self.prf_inputs(&req["prf"]);
        let extensions = if prf.is_none() && !req["extEmpty"].as_bool().unwrap_or(false) {
            None
        } else {
            Some(get_assertion::ExtensionInputs { hmac_secret: None, prf })
        };
        // the client-data hash is whatever bytes the caller sends ("h<N>": N bytes; "h1": a SHA-256 sized one)
        let n: usize = req["cdh"].as_str().and_then(|t| t.strip_prefix('h')).and_then(|t| t.parse().ok()).filter(|n| *n != 1).unwrap_or(32);
        self.cdh = (0..n).map(|_| self.rng.gen()).collect();
        get_assertion::Request {
            rp_id: rp,
            client_data_hash: self.cdh.clone().into(),
            allow_list: if req["allowGiven"].as_bool().unwrap() { Some(self.descriptors(&req["allow"])) } else { None },
            extensions,
            options: get_assertion::Options { rk: req["rk"].as_bool().unwrap(), up: req["up"].as_bool().unwrap(), uv: req["uv"].as_bool().unwrap() },
            pin_auth: if req["pinAuth"].as_bool().unwrap() { Some(vec![1u8; 16].into()) } else { None },
            pin_protocol: None,
        }
    }

    pub fn set_env(&mut self, env: &Value) {
        let mut s = self.sh.lock().unwrap();
        s.counted = 0;
        s.cancelled = false;
        s.fallible_calls = 0;
        s.cancel_at = env["cancelAt"].as_i64().unwrap();
        s.faults = env["faults"].as_array().unwrap().iter().map(|v| v.as_u64().unwrap() as u16).collect();
        let uv = &env["uv"];
        s.uv_asked = uv["kind"] == "asked";
        s.uv_answer = if uv["kind"] == "ok" || uv["kind"] == "asked" {
            Ok((uv["pres"].as_bool().unwrap(), uv["verif"].as_bool().unwrap()))
        } else {
            Err(uv["err"].as_u64().unwrap() as u8)
        };
    }

    pub fn push(&self, v: Value) {
        self.sh.lock().unwrap().record(v);
    }

    /// which relying party's SHA-256 the hash equals
    pub fn rp_of_hash(&self, h: &[u8]) -> String {
        let s = self.sh.lock().unwrap();
        s.dict.rp.iter().find(|(_, v)| rp::sha256(v.as_bytes())[..] == *h).map(|(n, _)| n.clone()).unwrap_or_else(|| "?".to_string())
    }

    /// which (secret, salt) pair of the given credential an output equals
    pub fn prf_pair(&self, out: Option<&[u8]>, cred: Option<&Passkey>) -> Value {
        let Some(out) = out else { return json!({"sec": "absent", "salt": "absent"}) };
        let mut secrets: Vec<(&str, Vec<u8>)> = vec![];
        if let Some(h) = cred.and_then(|c| c.extensions.hmac_secret.as_ref()) {
            secrets.push(("uv", h.cred_with_uv.clone()));
            if let Some(n) = &h.cred_without_uv {
                secrets.push(("nouv", n.clone()));
            }
        }
        // secrets of other credentials in the store: an output keyed with one of them is a different failure
        let others: Vec<Passkey> = if let Some(c) = &self.extern_contents { c.clone() } else { self.client.as_ref().map(|c| c.authenticator().store().contents()).unwrap_or_default() };
        for (sn, sec) in &secrets {
            for (name, salt) in &self.salts {
                if rp::hmac_sha256(sec, salt)[..] == *out {
                    return json!({"sec": sn, "salt": name});
                }
            }
        }
        for o in &others {
            if let Some(h) = &o.extensions.hmac_secret {
                for sec in [Some(&h.cred_with_uv), h.cred_without_uv.as_ref()].into_iter().flatten() {
                    for (name, salt) in &self.salts {
                        if rp::hmac_sha256(sec, salt)[..] == *out {
                            return json!({"sec": "other", "salt": name});
                        }
                    }
                }
            }
        }
        json!({"sec": "unknown", "salt": "unknown"})
    }

    pub fn end_default() -> Value {
        json!({"ok": false, "err": 0, "werr": "none", "flags": [], "ctr": {"hi": -1, "lo": 0}, "cred": "none", "user": "none", "rphash": "none",
               "sigkey": "none", "at": false, "ed": false, "wf": true, "attid": "none", "idlen": 0, "fresh": true,
               "cose": {"labels": [], "kty": 0, "alg": 0, "crv": 0, "point": false},
               "stored": no_cred(), "keymatch": false, "fmt": "none", "digest": "none", "info": no_info(),
               "prfEnabled": "absent", "prf1": {"sec": "absent", "salt": "absent"}, "prf2": {"sec": "absent", "salt": "absent"},
               "client": no_client(), "leaks": []})
    }

    pub fn stored(&self, id: &[u8]) -> Option<Passkey> {
        if let Some(c) = &self.extern_contents {
            return c.iter().find(|p| p.credential_id[..] == *id).cloned();
        }
        self.client.as_ref().unwrap().authenticator().store().contents().into_iter().find(|p| p.credential_id[..] == *id)
    }

    /// Relying-party reading of a make_credential response.
    pub fn judge_mc(&mut self, r: &make_credential::Response) -> Value {
        let mut d = Self::end_default();
        d["ok"] = json!(true);
        d["fmt"] = json!(r.fmt);
        {
            let mut cbor = vec![];
            let _ = ciborium::ser::into_writer(r, &mut cbor);
            d["leaks"] = self.leak_scan(vec![("ctap2 makeCredential response (CBOR)".into(), cbor),
                                             ("ctap2 makeCredential response (Debug)".into(), format!("{r:?} {r:#?}").into_bytes())]);
        }
        let bytes = r.auth_data.to_vec();
        let Some(ad) = rp::parse_authdata(&bytes) else {
            d["wf"] = json!(false);
            return d;
        };
        d["wf"] = json!(ad.well_formed);
        d["flags"] = json!(rp::flag_names(ad.flags));
        d["ctr"] = ctr_json(Some(ad.counter));
        d["rphash"] = json!(self.rp_of_hash(&ad.rp_hash));
        d["at"] = json!(ad.attested.is_some());
        d["ed"] = json!(ad.ext.is_some());
        if let Some(at) = &ad.attested {
            let fresh = !self.seen_ids.iter().any(|i| *i == at.cred_id) && globally_fresh(&at.cred_id);
            self.seen_ids.push(at.cred_id.clone());
            let name = self.sh.lock().unwrap().dict.cred_name_or_new(&at.cred_id);
            d["cred"] = json!(name);
            d["attid"] = json!(name);
            d["idlen"] = json!(at.cred_id.len());
            d["fresh"] = json!(fresh);
            if let Some(ci) = rp::cose_info(&at.cose) {
                let point = match (&ci.x, &ci.y) {
                    (Some(x), Some(y)) => rp::p256_point(x, y),
                    _ => None,
                };
                d["cose"] = json!({"labels": ci.labels, "kty": ci.kty.unwrap_or(0), "alg": ci.alg.unwrap_or(0),
                                   "crv": ci.crv.unwrap_or(0), "point": point.is_some() && ci.non_int_labels == 0});
                if let Some(pt) = &point {
                    self.sh.lock().unwrap().dict.pubkeys.push((name.clone(), pt.clone()));
                }
                if let Some(st) = self.stored(&at.cred_id) {
                    d["stored"] = cred_json(&self.sh.lock().unwrap().dict, &st);
                    d["keymatch"] = json!(private_matches(&st, point.as_deref()));
                }
            }
        }
        if let Some(p) = r.unsigned_extension_outputs.as_ref().and_then(|u| u.prf.as_ref()) {
            d["prfEnabled"] = json!(if p.enabled { "true" } else { "false" });
            let cred = ad.attested.as_ref().and_then(|a| self.stored(&a.cred_id));
            d["prf1"] = self.prf_pair(p.results.as_ref().map(|v| &v.first[..]), cred.as_ref());
            d["prf2"] = self.prf_pair(p.results.as_ref().and_then(|v| v.second.as_ref()).map(|s| &s[..]), cred.as_ref());
        }
        d
    }

    /// A credential whose registration response never reached the relying party (the registration was cancelled after
    /// the save): take its public key from the stored private scalar (d*G, computed by p256, not by the library).
    pub fn learn_missing_pubkeys(&self) {
        let creds: Vec<Passkey> = if let Some(c) = &self.extern_contents {
            c.clone()
        } else {
            self.client.as_ref().map(|c| c.authenticator().store().contents()).unwrap_or_default()
        };
        let mut s = self.sh.lock().unwrap();
        for p in creds {
            let name = s.dict.cred_name(&p.credential_id);
            if s.dict.pubkeys.iter().any(|(n, _)| *n == name) {
                continue;
            }
            let d = p.key.params.iter().find_map(|(k, v)| match k {
                coset::Label::Int(-4) => v.as_bytes().cloned(),
                _ => None,
            });
            if let Some(sk) = d.and_then(|d| p256::SecretKey::from_slice(&d).ok()) {
                let pt = p256::ecdsa::SigningKey::from(&sk).verifying_key().to_encoded_point(false).as_bytes().to_vec();
                s.dict.pubkeys.push((name, pt));
            }
        }
    }

    /// Relying-party reading of a get_assertion response.
    pub fn judge_ga(&mut self, r: &get_assertion::Response) -> Value {
        self.learn_missing_pubkeys();
        let mut d = Self::end_default();
        d["ok"] = json!(true);
        {
            let mut cbor = vec![];
            let _ = ciborium::ser::into_writer(r, &mut cbor);
            d["leaks"] = self.leak_scan(vec![("ctap2 getAssertion response (CBOR)".into(), cbor),
                                             ("ctap2 getAssertion response (Debug)".into(), format!("{r:?} {r:#?}").into_bytes())]);
        }
        let bytes = r.auth_data.to_vec();
        let Some(ad) = rp::parse_authdata(&bytes) else {
            d["wf"] = json!(false);
            return d;
        };
        d["wf"] = json!(ad.well_formed);
        d["flags"] = json!(rp::flag_names(ad.flags));
        d["ctr"] = ctr_json(Some(ad.counter));
        d["rphash"] = json!(self.rp_of_hash(&ad.rp_hash));
        d["at"] = json!(ad.attested.is_some());
        d["ed"] = json!(ad.ext.is_some());
        let used = r.credential.as_ref().map(|c| c.id.to_vec());
        {
            let s = self.sh.lock().unwrap();
            d["cred"] = json!(used.as_ref().map(|i| s.dict.cred_name(i)).unwrap_or_else(|| "none".to_string()));
            d["user"] = json!(r.user.as_ref().map(|u| s.dict.user_name(&u.id)).unwrap_or_else(|| "none".to_string()));
            // the signature is over authenticatorData || clientDataHash
            let mut msg = bytes.clone();
            msg.extend_from_slice(&self.cdh);
            d["sigkey"] = json!(s
                .dict
                .pubkeys
                .iter()
                .find(|(_, pk)| rp::verify_der(pk, &msg, &r.signature))
                .map(|(n, _)| n.clone())
                .unwrap_or_else(|| "none".to_string()));
        }
        let cred = used.as_ref().and_then(|i| self.stored(i));
        if let Some(c) = &cred {
            d["stored"] = cred_json(&self.sh.lock().unwrap().dict, c);
        }
        if let Some(p) = r.unsigned_extension_outputs.as_ref().and_then(|u| u.prf.as_ref()) {
            d["prf1"] = self.prf_pair(Some(&p.results.first[..]), cred.as_ref());
            d["prf2"] = self.prf_pair(p.results.second.as_ref().map(|s| &s[..]), cred.as_ref());
        }
        d
    }

    /// C06: search the given renderings of returned values (and the Debug rendering of every stored passkey) for secrets
    pub fn leak_scan(&self, mut outputs: Vec<(String, Vec<u8>)>) -> Value {
        let creds: Vec<Passkey> = if let Some(c) = &self.extern_contents {
            c.clone()
        } else {
            self.client.as_ref().map(|c| c.authenticator().store().contents()).unwrap_or_default()
        };
        for p in &creds {
            outputs.push(("debug(stored passkey)".to_string(), format!("{p:?} {p:#?}").into_bytes()));
        }
        json!(crate::leaks::scan(&creds, &outputs))
    }

    pub fn err_end(code: u8) -> Value {
        let mut d = Self::end_default();
        d["err"] = json!(code);
        d
    }

    /// The environment changes between two ceremonies (api "env"): the user enrols into / loses user verification,
    /// the store changes the discoverability support it reports.  The authenticator object stays the same.
    fn reconfigure(&mut self, c: &Value) {
        let r = &c["req"];
        if c["op"] == "rebuild" {
            // another authenticator object, built from the changed configuration, takes over the store's contents
            for (k, v) in r.as_object().unwrap() {
                self.cfg[k.as_str()] = v.clone();
            }
            let creds = self.client.as_ref().unwrap().authenticator().store().contents();
            let auth = build_auth(&self.cfg, creds, &self.sh);
            self.client = Some(passkey_client::Client::new(auth).allows_insecure_localhost(self.cfg["localhost"].as_bool().unwrap_or(false)));
            self.push(json!({"ev": "Reconfig", "d": {"cfg": self.cfg}}));
            return;
        }
        for k in ["uvCap", "upCap", "disc"] {
            self.cfg[k] = r[k].clone();
        }
        let disc: &'static str = match r["disc"].as_str().unwrap() {
            "full" => "full",
            "nondisc" => "nondisc",
            _ => "forced",
        };
        self.sh.lock().unwrap().env_now = Some((uv_cap_of(r["uvCap"].as_str().unwrap()), r["upCap"].as_bool().unwrap(), disc));
        self.push(json!({"ev": "Reconfig", "d": {"cfg": self.cfg}}));
    }

    /// Run one ceremony of a behaviour and append its events.
    pub fn ceremony(&mut self, c: &Value) {
        if c["api"] == "env" {
            return self.reconfigure(c);
        }
        self.salts.clear();
        self.set_env(&c["env"]);
        self.unknown_type = c["req"]["unkType"].as_bool().unwrap_or(false);
        let api = c["api"].as_str().unwrap();
        let op = c["op"].as_str().unwrap();
        self.push(json!({"ev": "Begin", "d": {"api": api, "op": op, "req": c["req"], "env": c["env"]}}));
        let mut client = self.client.take().unwrap();
        let sh = self.sh.clone();
        match (api, op) {
            ("ctap2", "mc") => {
                let req = self.mc_request(&c["req"]);
                let out = util::catch(|| drive(Authenticator::make_credential(client.authenticator_mut(), req), &sh));
                self.client = Some(client);
                let ev = match out {
                    Err(m) => json!({"ev": "Crash", "d": {"what": m}}),
                    Ok(Outcome::Hung) => json!({"ev": "Crash", "d": {"what": "hung"}}),
                    Ok(Outcome::Cancelled(_)) => json!({"ev": "Cancel", "d": {"after": sh.lock().unwrap().counted}}),
                    Ok(Outcome::Done(Ok(r))) => json!({"ev": "End", "d": self.judge_mc(&r)}),
                    Ok(Outcome::Done(Err(s))) => json!({"ev": "End", "d": Self::err_end(u8::from(s))}),
                };
                self.push(ev);
            }
            ("ctap2", "ga") => {
                let req = self.ga_request(&c["req"]);
                let out = util::catch(|| drive(Authenticator::get_assertion(client.authenticator_mut(), req), &sh));
                self.client = Some(client);
                let ev = match out {
                    Err(m) => json!({"ev": "Crash", "d": {"what": m}}),
                    Ok(Outcome::Hung) => json!({"ev": "Crash", "d": {"what": "hung"}}),
                    Ok(Outcome::Cancelled(_)) => json!({"ev": "Cancel", "d": {"after": sh.lock().unwrap().counted}}),
                    Ok(Outcome::Done(Ok(r))) => json!({"ev": "End", "d": self.judge_ga(&r)}),
                    Ok(Outcome::Done(Err(s))) => json!({"ev": "End", "d": Self::err_end(u8::from(s))}),
                };
                self.push(ev);
            }
            ("trait", "mc") => {
                let req = self.mc_request(&c["req"]);
                let out = util::catch(|| drive(<Auth as Ctap2Api>::make_credential(client.authenticator_mut(), req), &sh));
                self.client = Some(client);
                let ev = match out {
                    Err(m) => json!({"ev": "Crash", "d": {"what": m}}),
                    Ok(Outcome::Hung) => json!({"ev": "Crash", "d": {"what": "hung"}}),
                    Ok(Outcome::Cancelled(_)) => json!({"ev": "Cancel", "d": {"after": sh.lock().unwrap().counted}}),
                    Ok(Outcome::Done(Ok(r))) => json!({"ev": "End", "d": self.judge_mc(&r)}),
                    Ok(Outcome::Done(Err(s))) => json!({"ev": "End", "d": Self::err_end(u8::from(s))}),
                };
                self.push(ev);
            }
            ("trait", "ga") => {
                let req = self.ga_request(&c["req"]);
                let out = util::catch(|| drive(<Auth as Ctap2Api>::get_assertion(client.authenticator_mut(), req), &sh));
                self.client = Some(client);
                let ev = match out {
                    Err(m) => json!({"ev": "Crash", "d": {"what": m}}),
                    Ok(Outcome::Hung) => json!({"ev": "Crash", "d": {"what": "hung"}}),
                    Ok(Outcome::Cancelled(_)) => json!({"ev": "Cancel", "d": {"after": sh.lock().unwrap().counted}}),
                    Ok(Outcome::Done(Ok(r))) => json!({"ev": "End", "d": self.judge_ga(&r)}),
                    Ok(Outcome::Done(Err(s))) => json!({"ev": "End", "d": Self::err_end(u8::from(s))}),
                };
                self.push(ev);
            }
            (_, "info") => {
                let out = if api == "trait" {
                    util::catch(|| drive(<Auth as Ctap2Api>::get_info(client.authenticator()), &sh))
                } else {
                    util::catch(|| drive(Authenticator::get_info(client.authenticator()), &sh))
                };
                self.client = Some(client);
                let ev = match out {
                    Err(m) => json!({"ev": "Crash", "d": {"what": m}}),
                    Ok(Outcome::Hung) => json!({"ev": "Crash", "d": {"what": "hung"}}),
                    Ok(Outcome::Cancelled(_)) => json!({"ev": "Cancel", "d": {"after": sh.lock().unwrap().counted}}),
                    Ok(Outcome::Done(r)) => {
                        let mut bytes = vec![];
                        ciborium::ser::into_writer(&r, &mut bytes).unwrap();
                        let mut d = Self::end_default();
                        d["ok"] = json!(true);
                        d["digest"] = json!(hex(&bytes));
                        d["info"] = info_json(&bytes);
                        d["leaks"] = self.leak_scan(vec![("getInfo response (CBOR)".into(), bytes.clone()),
                                                         ("getInfo response (Debug)".into(), format!("{r:?}").into_bytes())]);
                        json!({"ev": "End", "d": d})
                    }
                };
                self.push(ev);
            }
            _ => {
                self.client = Some(client);
                crate::cerclient::ceremony(self, c);
            }
        }
        // the store as the next ceremony will find it
        let snap = {
            let s = self.sh.lock().unwrap();
            self.client.as_ref().unwrap().authenticator().store().snapshot(&s.dict)
        };
        let nnew = self.sh.lock().unwrap().dict.new_count;
        self.push(json!({"ev": "Snap", "d": {"snap": snap, "nnew": nnew}}));
    }

    pub fn take_log(&mut self) -> Vec<Value> {
        std::mem::take(&mut self.sh.lock().unwrap().log)
    }
}

/// A credential id must be fresh among ALL ids this process has seen created (across runs): an id space of a few
/// hundred values shows up within a few dozen registrations.
pub fn globally_fresh(id: &[u8]) -> bool {
    static SEEN: std::sync::Mutex<Option<std::collections::HashSet<Vec<u8>>>> = std::sync::Mutex::new(None);
    let mut g = SEEN.lock().unwrap();
    g.get_or_insert_with(Default::default).insert(id.to_vec())
}

pub fn no_info() -> Value {
    json!({"versions": [], "exts": [], "rk": false, "up": false, "uv": "absent", "plat": false, "clientPin": "absent",
           "transports": [], "maxMsgSize": false, "pinProtocols": false})
}

/// the authenticatorGetInfo response as the abstract record of Ceremony!InfoOf, read from its CBOR encoding
pub fn info_json(bytes: &[u8]) -> Value {
    use ciborium::value::Value as Cbor;
    let mut v = no_info();
    let Ok(Cbor::Map(m)) = ciborium::de::from_reader::<Cbor, _>(bytes) else { return v };
    let get = |k: i64| m.iter().find(|(kk, _)| kk.as_integer().and_then(|i| i64::try_from(i).ok()) == Some(k)).map(|(_, x)| x);
    let texts = |x: Option<&Cbor>| -> Vec<String> {
        x.and_then(|a| a.as_array()).map(|a| a.iter().filter_map(|t| t.as_text().map(|s| s.to_string())).collect()).unwrap_or_default()
    };
    v["versions"] = json!(texts(get(1)));
    v["exts"] = json!(texts(get(2)));
    v["transports"] = json!(texts(get(9)));
    v["maxMsgSize"] = json!(get(5).is_some());
    v["pinProtocols"] = json!(get(6).is_some());
    if let Some(Cbor::Map(o)) = get(4) {
        let b = |name: &str| o.iter().find(|(k, _)| k.as_text() == Some(name)).and_then(|(_, x)| x.as_bool());
        v["rk"] = json!(b("rk").unwrap_or(false));
        v["up"] = json!(b("up").unwrap_or(true));
        v["plat"] = json!(b("plat").unwrap_or(false));
        v["uv"] = json!(match b("uv") { Some(true) => "true", Some(false) => "false", None => "absent" });
        v["clientPin"] = json!(match b("clientPin") { Some(true) => "true", Some(false) => "false", None => "absent" });
    }
    v
}

pub fn no_client() -> Value {
    json!({"present": false})
}

/// does the stored private key correspond to the public point?
pub fn private_matches(p: &Passkey, point: Option<&[u8]>) -> bool {
    let Some(point) = point else { return false };
    let d = p.key.params.iter().find_map(|(k, v)| match k {
        coset::Label::Int(-4) => v.as_bytes().cloned(),
        _ => None,
    });
    let Some(d) = d else { return false };
    let Ok(sk) = p256::SecretKey::from_slice(&d) else { return false };
    p256::ecdsa::SigningKey::from(&sk).verifying_key().to_encoded_point(false).as_bytes() == point
}

/// `pkverif cer replay --in behaviours.ndjson --out trace.ndjson [--isolate 1]`
///
/// With --isolate the behaviours run in child processes of this binary: a child that dies (stack overflow, abort,
/// resource limit) is data - the parent closes the interrupted ceremony with a Crash event and carries on with the
/// next behaviour in a new child.
pub fn replay(args: &Args) {
    let beh = util::read_ndjson(args.req("in"));
    let seed = args.seed();
    if args.get("isolate").is_some() {
        return replay_isolated(args, &beh);
    }
    let from = args.num("from", 0) as usize;
    let child = args.get("child").is_some();
    let mut out = Sink::create(args.req("out"));
    for (i, b) in beh.iter().enumerate().skip(from) {
        // every behaviour runs on a thread of its own (callers of a library live on many threads: whatever the library
        // keeps per thread - random generators, caches - starts afresh, whatever it keeps per process is shared)
        let log = std::thread::scope(|s| {
            std::thread::Builder::new()
                .stack_size(8 << 20)
                .spawn_scoped(s, || {
                    let mut run = Run::new(seed.wrapping_mul(1_000_003).wrapping_add(i as u64));
                    if child {
                        crate::cer::set_write_through(args.req("out"));
                    }
                    run.reset(i as u64, &b["cfg"], &b["store"]);
                    for c in b["cers"].as_array().unwrap() {
                        run.ceremony(c);
                    }
                    run.take_log()
                })
                .expect("spawn")
                .join()
        });
        let log = match log {
            Ok(l) => l,
            Err(p) => std::panic::resume_unwind(p),
        };
        if !child {
            for e in log {
                out.emit(e);
            }
        }
    }
    let n = out.finish();
    if !child {
        println!("{}", json!({"behaviours": beh.len(), "events": n}));
    }
}

fn replay_isolated(args: &Args, beh: &[Value]) {
    let exe = std::env::current_exe().unwrap();
    let out_path = args.req("out").to_string();
    let tmp = format!("{out_path}.child");
    let mut out = Sink::create(&out_path);
    let mut k = 0usize;
    let mut crashes = 0u64;
    while k < beh.len() {
        let _ = std::fs::remove_file(&tmp);
        let status = std::process::Command::new(&exe)
            .args(["cer", "replay", "--in", args.req("in"), "--out", &tmp, "--child", "1", "--from", &k.to_string(), "--seed", &args.seed().to_string()])
            .stdout(std::process::Stdio::null())
            .stderr(std::process::Stdio::null())
            .status()
            .expect("spawn child");
        let events: Vec<Value> = std::fs::read_to_string(&tmp)
            .unwrap_or_default()
            .lines()
            .filter_map(|l| serde_json::from_str(l).ok())
            .collect();
        let runs = events.iter().filter(|e| e["ev"] == "Reset").count();
        let mut last_snap = json!([]);
        let mut open = false;
        for e in &events {
            match e["ev"].as_str().unwrap() {
                "Reset" => last_snap = e["store"].clone(),
                "Store" => last_snap = e["d"]["snap"].clone(),
                "Begin" => open = true,
                "Snap" => {
                    open = false;
                    last_snap = e["d"]["snap"].clone()
                }
                _ => {}
            }
            out.emit(e.clone());
        }
        if status.success() {
            break;
        }
        // the child died inside behaviour k + runs - 1 (or before writing anything)
        crashes += 1;
        let what = format!("process died: {status}");
        if runs == 0 {
            out.emit(json!({"ev": "Reset", "run": k, "cfg": beh[k]["cfg"], "store": beh[k]["store"]}));
            k += 1;
            continue;
        }
        if open {
            out.emit(json!({"ev": "Crash", "d": {"what": what}}));
            out.emit(json!({"ev": "Snap", "d": {"snap": last_snap, "nnew": 0}}));
        }
        k += runs;
    }
    let _ = std::fs::remove_file(&tmp);
    let n = out.finish();
    println!("{}", json!({"behaviours": beh.len(), "events": n, "child_crashes": crashes}));
}

pub fn main(args: &Args) {
    util::quiet_panics();
    match args.pos.first().map(|s| s.as_str()) {
        Some("replay") => replay(args),
        Some("selftest") => match rp::selftest().and_then(|_| crate::leaks::selftest()) {
            Ok(()) => println!("{}", json!({"selftest": "ok"})),
            Err(e) => {
                eprintln!("pkverif: self-test failed: {e}");
                std::process::exit(2)
            }
        },
        _ => {
            eprintln!("usage: pkverif cer replay --in FILE --out FILE | selftest");
            std::process::exit(2)
        }
    }
}

#[allow(dead_code)]
fn _status(_: StatusCode) {}
