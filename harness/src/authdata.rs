//! C12: authenticator data built with the public constructor and setters, encoded with to_vec, walked with the
//! harness's own decoder (rp.rs), decoded with from_slice; truncations, flag bytes, corruptions.
use crate::rp;
use crate::util::{self, Args, Sink};
use ciborium::value::Value as Cbor;
use passkey_types::ctap2::{get_assertion, make_credential, Aaguid, AttestedCredentialData, AuthenticatorData, Flags};
use rand::{Rng, RngCore};
use serde_json::{json, Value};

fn rnd(rng: &mut impl RngCore, n: usize) -> Vec<u8> {
    let mut v = vec![0u8; n];
    rng.fill_bytes(&mut v);
    v
}

fn base() -> Value {
    json!({"kind": "", "case": {"rp": "none", "ctr": "none", "flags": [], "at": false, "idlen": 0, "ext": "none", "key": "plain"},
           "crash": false, "wf": false, "hashok": false, "flagbyte": 0, "ctrok": false, "atpresent": false, "edpresent": false,
           "aaguidok": false, "idlen": 0, "idok": false, "keyok": false, "keylen": 0, "extok": false, "extlen": 0, "total": 0,
           "rt": "none", "cut": 0, "res": "none", "byte": 0})
}

struct Built {
    value: AuthenticatorData,
    rp: String,
    counter: Option<u32>,
    aaguid: [u8; 16],
    id: Vec<u8>,
    key: coset::CoseKey,
}

fn build(case: &Value, rng: &mut impl RngCore) -> Option<Built> {
    let rp = match case["rp"].as_str().unwrap() {
        "idn" => "xn--bcher-kva.example".to_string(),
        "upper" => "Login.EXAMPLE.com".to_string(),
        "unicode" => "B\u{dc}CHER.example".to_string(),
        "empty" => String::new(),
        "dot" => "example.com.".to_string(),
        "long" => format!("{}.example.com", "a".repeat(300)),
        _ => "login.example.com".to_string(),
    };
    let counter = match case["ctr"].as_str().unwrap() {
        "none" => None,
        "zero" => Some(0),
        "one" => Some(1),
        _ => Some(u32::MAX),
    };
    let mut flags = Flags::empty();
    for f in case["flags"].as_array().unwrap() {
        match f.as_str().unwrap() {
            "UP" => flags |= Flags::UP,
            "UV" => flags |= Flags::UV,
            _ => {}
        }
    }
    let mut v = AuthenticatorData::new(&rp, counter).set_flags(flags);
    let mut aaguid = [0u8; 16];
    rng.fill_bytes(&mut aaguid);
    let id = rnd(rng, case["idlen"].as_u64().unwrap() as usize);
    let sk = p256::SecretKey::random(&mut rand::thread_rng());
    let pk = p256::ecdsa::SigningKey::from(&sk).verifying_key().to_encoded_point(false);
    let key = coset::CoseKeyBuilder::new_ec2_pub_key(coset::iana::EllipticCurve::P_256, pk.x().unwrap().to_vec(), pk.y().unwrap().to_vec())
        .algorithm(coset::iana::Algorithm::ES256);
    // an EC2 key may carry the optional common parameters of a COSE key
    let key = match case["key"].as_str().unwrap_or("plain") {
        // EC2 keys on the other registered curves (coordinates of 48 / 66 bytes)
        "p384" => coset::CoseKeyBuilder::new_ec2_pub_key(coset::iana::EllipticCurve::P_384, rnd(rng, 48), rnd(rng, 48)).algorithm(coset::iana::Algorithm::ES384),
        "p521" => coset::CoseKeyBuilder::new_ec2_pub_key(coset::iana::EllipticCurve::P_521, rnd(rng, 66), rnd(rng, 66)).algorithm(coset::iana::Algorithm::ES512),
        "k256" => coset::CoseKeyBuilder::new_ec2_pub_key(coset::iana::EllipticCurve::Secp256k1, rnd(rng, 32), rnd(rng, 32)).algorithm(coset::iana::Algorithm::ES256K),
        "kid" => key.key_id(rnd(rng, 9)),
        "ops" => key.add_key_op(coset::iana::KeyOperation::Verify),
        "iv" => key.base_iv(rnd(rng, 12)),
        _ => key,
    }
    .build();
    if case["at"].as_bool().unwrap() {
        v = v.set_attested_credential_data(AttestedCredentialData::new(Aaguid(aaguid), id.clone(), key.clone()).ok()?);
    }
    v = match case["ext"].as_str().unwrap() {
        "mc-bool" => v
            .set_make_credential_extensions(Some(make_credential::SignedExtensionOutputs { hmac_secret: Some(true), hmac_secret_mc: None }))
            .ok()?,
        "ga-bytes" => v
            .set_assertion_extensions(Some(get_assertion::SignedExtensionOutputs { hmac_secret: Some(rnd(rng, 64).into()) }))
            .ok()?,
        // registration outputs carrying the hmac-secret-mc member only / both members
        "mc-mconly" => v
            .set_make_credential_extensions(Some(make_credential::SignedExtensionOutputs { hmac_secret: None, hmac_secret_mc: Some(rnd(rng, 48).into()) }))
            .ok()?,
        "mc-mcboth" => v
            .set_make_credential_extensions(Some(make_credential::SignedExtensionOutputs { hmac_secret: Some(true), hmac_secret_mc: Some(rnd(rng, 48).into()) }))
            .ok()?,
        "mc-false" => v
            .set_make_credential_extensions(Some(make_credential::SignedExtensionOutputs { hmac_secret: Some(false), hmac_secret_mc: None }))
            .ok()?,
        // the setters called more than once: whatever the second call means, the ED bit must describe the result
        "mc-then-none" => v
            .set_make_credential_extensions(Some(make_credential::SignedExtensionOutputs { hmac_secret: Some(true), hmac_secret_mc: None }))
            .ok()?
            .set_make_credential_extensions(None)
            .ok()?,
        "ga-then-empty" => v
            .set_assertion_extensions(Some(get_assertion::SignedExtensionOutputs { hmac_secret: Some(rnd(rng, 64).into()) }))
            .ok()?
            .set_assertion_extensions(Some(get_assertion::SignedExtensionOutputs { hmac_secret: None }))
            .ok()?,
        "mc-then-ga" => v
            .set_make_credential_extensions(Some(make_credential::SignedExtensionOutputs { hmac_secret: Some(true), hmac_secret_mc: None }))
            .ok()?
            .set_assertion_extensions(Some(get_assertion::SignedExtensionOutputs { hmac_secret: Some(rnd(rng, 64).into()) }))
            .ok()?,
        "none-then-mc" => v
            .set_assertion_extensions(None)
            .ok()?
            .set_make_credential_extensions(Some(make_credential::SignedExtensionOutputs { hmac_secret: Some(true), hmac_secret_mc: None }))
            .ok()?,
        _ => v,
    };
    Some(Built { value: v, rp, counter, aaguid, id, key })
}

fn cbor_len(v: &Cbor) -> usize {
    let mut out = vec![];
    ciborium::ser::into_writer(v, &mut out).unwrap();
    out.len()
}

pub fn main(args: &Args) {
    util::quiet_panics();
    let mut rng = util::rng(args.seed());
    let cases: Vec<Value> = serde_json::from_str(&std::fs::read_to_string(args.req("cases")).expect("cases")).expect("json");
    let mut out = Sink::create(args.req("out"));
    let mut encodings: Vec<Vec<u8>> = vec![];
    for case in &cases {
        let mut e = base();
        e["kind"] = json!("enc");
        e["case"] = case.clone();
        let built = util::catch(|| build(case, &mut rng));
        let Ok(Some(b)) = built else {
            e["crash"] = json!(built.is_err());
            out.emit(e);
            continue;
        };
        let bytes = match util::catch(|| b.value.to_vec()) {
            Ok(v) => v,
            Err(_) => {
                e["crash"] = json!(true);
                out.emit(e);
                continue;
            }
        };
        e["total"] = json!(bytes.len());
        if let Some(ad) = rp::parse_authdata(&bytes) {
            e["wf"] = json!(ad.well_formed);
            e["hashok"] = json!(ad.rp_hash == rp::sha256(b.rp.as_bytes()));
            e["flagbyte"] = json!(ad.flags);
            e["ctrok"] = json!(ad.counter == b.counter.unwrap_or(0) && bytes[33..37] == b.counter.unwrap_or(0).to_be_bytes());
            e["atpresent"] = json!(ad.attested.is_some());
            e["edpresent"] = json!(ad.ext.is_some());
            if let Some(at) = &ad.attested {
                e["aaguidok"] = json!(at.aaguid == b.aaguid);
                e["idlen"] = json!(at.cred_id.len());
                e["idok"] = json!(at.cred_id == b.id);
                e["keylen"] = json!(at.cose_bytes.len());
                // the COSE key decodes to the key that was put in (x, y, kty, alg, crv)
                let want = rp::cose_info(&at.cose);
                let x = b.key.params.iter().find(|(k, _)| *k == coset::Label::Int(-2)).and_then(|(_, v)| v.as_bytes().cloned());
                let y = b.key.params.iter().find(|(k, _)| *k == coset::Label::Int(-3)).and_then(|(_, v)| v.as_bytes().cloned());
                // ... and, member for member, the key as given (optional common parameters included)
                let whole = <coset::CoseKey as coset::CborSerializable>::from_slice(&at.cose_bytes).map(|k| k == b.key).unwrap_or(false);
                let plain = case["key"].as_str().unwrap_or("plain") == "plain";
                let p256 = !["p384", "p521", "k256"].contains(&case["key"].as_str().unwrap_or("plain"));
                e["keyok"] = json!(whole && want.map(|c| c.x == x && c.y == y && c.kty == Some(2)
                    && (!p256 || (c.alg == Some(-7) && c.crv == Some(1))) && (!plain || c.labels == vec![-3, -2, -1, 1, 3])).unwrap_or(false));
            }
            if let Some(ext) = &ad.ext {
                e["extlen"] = json!(cbor_len(ext));
                let m = ext.as_map();
                let kind = case["ext"].as_str().unwrap();
                if ["mc-mconly", "mc-mcboth", "mc-false"].contains(&kind) {
                    let get = |name: &str| m.and_then(|m| m.iter().find(|(k, _)| k.as_text() == Some(name)).map(|(_, v)| v.clone()));
                    let ok = match kind {
                        "mc-mconly" => get("hmac-secret").is_none() && get("hmac-secret-mc").and_then(|v| v.as_bytes().map(|b| b.len())) == Some(48),
                        "mc-mcboth" => get("hmac-secret").and_then(|v| v.as_bool()) == Some(true) && get("hmac-secret-mc").and_then(|v| v.as_bytes().map(|b| b.len())) == Some(48),
                        _ => get("hmac-secret").and_then(|v| v.as_bool()) == Some(false) && get("hmac-secret-mc").is_none(),
                    };
                    e["extok"] = json!(ok);
                    e["extlen"] = json!(cbor_len(ext));
                }
                let first_bool = ["mc-bool", "mc-then-none", "none-then-mc"].contains(&case["ext"].as_str().unwrap());
                let either = ["mc-then-ga", "ga-then-empty"].contains(&case["ext"].as_str().unwrap());
                if !["mc-mconly", "mc-mcboth", "mc-false"].contains(&kind) {
                e["extok"] = json!(m.map(|m| m.len() == 1 && m[0].0.as_text() == Some("hmac-secret")
                    && ((first_bool || either) && m[0].1.as_bool() == Some(true) || (!first_bool || either) && m[0].1.as_bytes().map(|b| b.len()) == Some(64))).unwrap_or(false));
                }
            }
        }
        // round trip
        e["rt"] = json!(match util::catch(|| AuthenticatorData::from_slice(&bytes)) {
            Err(_) => "crash",
            Ok(Err(_)) => "err",
            Ok(Ok(back)) => {
                // an absent counter reads back as zero: compare through the encoding and the public fields
                let same = back.to_vec() == bytes
                    && back.counter == Some(b.counter.unwrap_or(0))
                    && back.flags == (b.value.flags | if b.value.attested_credential_data.is_some() { Flags::AT } else { Flags::empty() })
                    && back.attested_credential_data == b.value.attested_credential_data
                    && back.extensions == b.value.extensions
                    && back.rp_id_hash() == b.value.rp_id_hash();
                if same { "equal" } else { "differ" }
            }
        });
        out.emit(e);
        if bytes.len() < 400 || rng.gen_range(0..20) == 0 {
            encodings.push(bytes);
        }
    }
    // truncations of valid encodings: every prefix for short encodings, boundaries + samples for long ones
    let mut ntrunc = 0;
    for enc in &encodings {
        let cuts: Vec<usize> = if enc.len() <= 400 { (0..=enc.len()).collect() } else {
            let mut c: Vec<usize> = (0..=120).collect();
            c.extend((0..60).map(|_| rng.gen_range(0..enc.len())));
            c.extend(enc.len() - 100..=enc.len());
            c
        };
        for cut in cuts {
            let mut e = base();
            e["kind"] = json!("trunc");
            e["cut"] = json!(cut);
            e["total"] = json!(enc.len());
            match util::catch(|| AuthenticatorData::from_slice(&enc[..cut])) {
                Err(_) => e["crash"] = json!(true),
                Ok(Err(_)) => e["res"] = json!("err"),
                Ok(Ok(_)) => e["res"] = json!("ok"),
            }
            out.emit(e);
            ntrunc += 1;
        }
        // single-byte corruptions at the segment boundaries and at random places
        let mut places: Vec<usize> = vec![0, 31, 32, 33, 36, 37, 52, 53, 54, 55];
        places.extend((0..8).map(|_| rng.gen_range(0..enc.len())));
        for p in places.into_iter().filter(|p| *p < enc.len()) {
            for delta in [1u8, 0x80, 0xff] {
                let mut m = enc.clone();
                m[p] ^= delta;
                let mut e = base();
                e["kind"] = json!("corrupt");
                e["cut"] = json!(p);
                e["total"] = json!(enc.len());
                match util::catch(|| AuthenticatorData::from_slice(&m).map(|v| v.to_vec())) {
                    Err(_) => e["crash"] = json!(true),
                    Ok(Err(_)) => e["res"] = json!("err"),
                    Ok(Ok(_)) => e["res"] = json!("ok"),
                }
                out.emit(e);
            }
        }
    }
    // 37-byte inputs with every flag byte
    for b in 0..=255u8 {
        let mut input = rnd(&mut rng, 37);
        input[32] = b;
        let mut e = base();
        e["kind"] = json!("flags");
        e["byte"] = json!(b);
        match util::catch(|| AuthenticatorData::from_slice(&input)) {
            Err(_) => e["crash"] = json!(true),
            Ok(Err(_)) => e["res"] = json!("err"),
            Ok(Ok(_)) => e["res"] = json!("ok"),
        }
        out.emit(e);
    }
    // credential ids longer than 65535 bytes are refused at construction
    for n in [0usize, 65535, 65536, 70000] {
        let key = coset::CoseKeyBuilder::new_ec2_pub_key(coset::iana::EllipticCurve::P_256, vec![1; 32], vec![2; 32]).build();
        let mut e = base();
        e["kind"] = json!("new");
        e["idlen"] = json!(n);
        match util::catch(|| AttestedCredentialData::new(Aaguid::new_empty(), vec![7u8; n], key).is_ok()) {
            Err(_) => e["crash"] = json!(true),
            Ok(ok) => e["res"] = json!(if ok { "ok" } else { "err" }),
        }
        out.emit(e);
    }
    let n = out.finish();
    println!("{}", json!({"events": n, "cases": cases.len(), "truncations": ntrunc}));
}
