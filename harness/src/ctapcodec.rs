//! C13: CTAP2 message (de)serialisation observed through ciborium for the cases enumerated by CtapCodec.tla,
//! and the conversions of all 256 status bytes.
use crate::util::{self, Args, Sink};
use ciborium::value::Value as Cbor;
use passkey_client::WebauthnError;
use passkey_types::ctap2::extensions::{AuthenticatorPrfGetOutputs, AuthenticatorPrfInputs, AuthenticatorPrfMakeOutputs, AuthenticatorPrfValues, HmacGetSecretInput};
use passkey_types::ctap2::{get_assertion, get_info, make_credential, Aaguid, AttestedCredentialData, AuthenticatorData, Ctap2Code, StatusCode};
use passkey_types::webauthn::{
    AuthenticatorTransport, PublicKeyCredentialDescriptor, PublicKeyCredentialParameters, PublicKeyCredentialType, PublicKeyCredentialUserEntity,
};
use rand::RngCore;
use serde::{de::DeserializeOwned, Serialize};
use serde_json::{json, Value};

fn rnd(rng: &mut impl RngCore, n: usize) -> Vec<u8> {
    let mut v = vec![0u8; n];
    rng.fill_bytes(&mut v);
    v
}

fn desc(rng: &mut impl RngCore, n: usize) -> Vec<PublicKeyCredentialDescriptor> {
    (0..n)
        .map(|i| PublicKeyCredentialDescriptor {
            ty: PublicKeyCredentialType::PublicKey,
            id: rnd(rng, 16 + i).into(),
            transports: if i % 2 == 0 { Some(vec![AuthenticatorTransport::Usb, AuthenticatorTransport::Internal]) } else { None },
        })
        .collect()
}

fn prf_inputs(rng: &mut impl RngCore) -> AuthenticatorPrfInputs {
    let mut m = std::collections::HashMap::new();
    m.insert(rnd(rng, 16).into(), AuthenticatorPrfValues { first: rnd(rng, 32).try_into().unwrap(), second: None });
    AuthenticatorPrfInputs {
        eval: Some(AuthenticatorPrfValues { first: rnd(rng, 32).try_into().unwrap(), second: Some(rnd(rng, 32).try_into().unwrap()) }),
        eval_by_credential: Some(m),
    }
}

pub fn auth_data_pub(rng: &mut impl RngCore, attested: bool) -> AuthenticatorData {
    auth_data(rng, attested)
}

fn auth_data(rng: &mut impl RngCore, attested: bool) -> AuthenticatorData {
    let ad = AuthenticatorData::new("example.com", Some(7));
    if attested {
        let key = coset::CoseKeyBuilder::new_ec2_pub_key(coset::iana::EllipticCurve::P_256, rnd(rng, 32), rnd(rng, 32))
            .algorithm(coset::iana::Algorithm::ES256)
            .build();
        ad.set_attested_credential_data(AttestedCredentialData::new(Aaguid::new_empty(), rnd(rng, 16), key).unwrap())
    } else {
        ad
    }
}

fn hmac_input(rng: &mut impl RngCore, with_opt: bool) -> HmacGetSecretInput {
    HmacGetSecretInput {
        key_agreement: Cbor::Map(vec![(Cbor::Integer(1.into()), Cbor::Integer(2.into())), (Cbor::Integer((-2).into()), Cbor::Bytes(rnd(rng, 32)))]),
        salt_enc: rnd(rng, 64).into(),
        salt_auth: rnd(rng, 16).into(),
        pin_uv_auth_protocol: if with_opt { Some(2) } else { None },
    }
}

/// build the message `msg` with the given optional members present; serialised with ciborium
fn build(msg: &str, present: &[String], rng: &mut impl RngCore) -> Result<Vec<u8>, String> {
    build_with(msg, present, (true, true, true), rng).map(|(b, _)| b)
}

/// (serialisation, Debug rendering of the value that was serialised)
fn build_with(msg: &str, present: &[String], opts: (bool, bool, bool), rng: &mut impl RngCore) -> Result<(Vec<u8>, String), String> {
    let has = |m: &str| present.iter().any(|p| p == m);
    let mut dbg = String::new();
    macro_rules! ser {
        ($v:expr, $out:expr $(,)?) => {{
            let v = $v;
            dbg = format!("{:?}", v);
            ciborium::ser::into_writer(&v, $out)
        }};
    }
    let mut out = vec![];
    let r = match msg {
        "mcReq" => ser!(
            make_credential::Request {
                client_data_hash: rnd(rng, 32).into(),
                rp: make_credential::PublicKeyCredentialRpEntity { id: "example.com".into(), name: Some("Example".into()) },
                user: PublicKeyCredentialUserEntity { id: rnd(rng, 12).into(), name: "n".into(), display_name: "d".into() },
                pub_key_cred_params: vec![PublicKeyCredentialParameters { ty: PublicKeyCredentialType::PublicKey, alg: coset::iana::Algorithm::ES256 }],
                exclude_list: has("excludeList").then(|| desc(rng, 2)),
                extensions: has("extensions").then(|| make_credential::ExtensionInputs { hmac_secret: Some(true), hmac_secret_mc: Some(hmac_input(rng, true)), prf: Some(prf_inputs(rng)) }),
                options: make_credential::Options { rk: opts.0, up: opts.1, uv: opts.2 },
                pin_auth: has("pinAuth").then(|| rnd(rng, 16).into()),
                pin_protocol: has("pinProtocol").then_some(1),
            },
            &mut out,
        ),
        "mcResp" => ser!(
            make_credential::Response {
                fmt: "none".into(),
                auth_data: auth_data(rng, true),
                att_stmt: Cbor::Map(vec![]),
                ep_att: has("epAtt").then_some(true),
                large_blob_key: has("largeBlobKey").then(|| rnd(rng, 32).into()),
                unsigned_extension_outputs: has("unsignedExtensionOutputs").then(|| make_credential::UnsignedExtensionOutputs {
                    prf: Some(AuthenticatorPrfMakeOutputs { enabled: true, results: Some(AuthenticatorPrfValues { first: rnd(rng, 32).try_into().unwrap(), second: None }) }),
                }),
            },
            &mut out,
        ),
        "gaReq" => ser!(
            get_assertion::Request {
                rp_id: "example.com".into(),
                client_data_hash: rnd(rng, 32).into(),
                allow_list: has("allowList").then(|| desc(rng, 3)),
                extensions: has("extensions").then(|| get_assertion::ExtensionInputs { hmac_secret: Some(hmac_input(rng, false)), prf: Some(prf_inputs(rng)) }),
                options: get_assertion::Options { rk: opts.0, up: opts.1, uv: opts.2 },
                pin_auth: has("pinAuth").then(|| rnd(rng, 16).into()),
                pin_protocol: has("pinProtocol").then_some(2),
            },
            &mut out,
        ),
        "gaResp" => ser!(
            get_assertion::Response {
                credential: has("credential").then(|| desc(rng, 1).pop().unwrap()),
                auth_data: auth_data(rng, false),
                signature: rnd(rng, 70).into(),
                user: has("user").then(|| PublicKeyCredentialUserEntity { id: rnd(rng, 8).into(), name: "".into(), display_name: "".into() }),
                number_of_credentials: has("numberOfCredentials").then_some(3),
                user_selected: has("userSelected").then_some(true),
                large_blob_key: has("largeBlobKey").then(|| rnd(rng, 32).into()),
                unsigned_extension_outputs: has("unsignedExtensionOutputs").then(|| get_assertion::UnsignedExtensionOutputs {
                    prf: Some(AuthenticatorPrfGetOutputs { results: AuthenticatorPrfValues { first: rnd(rng, 32).try_into().unwrap(), second: Some(rnd(rng, 32).try_into().unwrap()) } }),
                }),
            },
            &mut out,
        ),
        "info" => ser!(
            get_info::Response {
                versions: vec![get_info::Version::FIDO_2_0, get_info::Version::U2F_V2],
                extensions: has("extensions").then(|| vec![get_info::Extension::Prf, get_info::Extension::HmacSecret]),
                aaguid: Aaguid::new_empty(),
                options: has("options").then(|| get_info::Options { plat: true, rk: true, client_pin: Some(false), up: true, uv: Some(true) }),
                max_msg_size: has("maxMsgSize").then(|| std::num::NonZeroU128::new(1200).unwrap()),
                pin_protocols: has("pinProtocols").then(|| vec![1, 2]),
                transports: has("transports").then(|| vec![AuthenticatorTransport::Internal, AuthenticatorTransport::Hybrid]),
            },
            &mut out,
        ),
        _ => ser!(hmac_input(rng, has("pinUvAuthProtocol")), &mut out),
    };
    r.map(|_| (out, dbg)).map_err(|e| e.to_string())
}

pub fn build_pub(msg: &str, present: &[String], rng: &mut impl RngCore) -> Vec<u8> {
    build(msg, present, rng).expect("valid encoding")
}

/// deserialise as the message type and serialise again
fn reparse(msg: &str, bytes: &[u8]) -> Result<(Vec<u8>, String), String> {
    fn rt<T: DeserializeOwned + Serialize + std::fmt::Debug>(b: &[u8]) -> Result<(Vec<u8>, String), String> {
        let v: T = ciborium::de::from_reader(b).map_err(|e| e.to_string())?;
        let mut out = vec![];
        ciborium::ser::into_writer(&v, &mut out).map_err(|e| e.to_string())?;
        Ok((out, format!("{v:?}")))
    }
    match msg {
        "mcReq" => rt::<make_credential::Request>(bytes),
        "mcResp" => rt::<make_credential::Response>(bytes),
        "gaReq" => rt::<get_assertion::Request>(bytes),
        "gaResp" => rt::<get_assertion::Response>(bytes),
        "info" => rt::<get_info::Response>(bytes),
        _ => rt::<HmacGetSecretInput>(bytes),
    }
}

fn options_of(msg: &str, bytes: &[u8]) -> Option<(bool, bool, bool)> {
    match msg {
        "mcReq" => ciborium::de::from_reader::<make_credential::Request, _>(bytes).ok().map(|r| (r.options.up, r.options.rk, r.options.uv)),
        "gaReq" => ciborium::de::from_reader::<get_assertion::Request, _>(bytes).ok().map(|r| (r.options.up, r.options.rk, r.options.uv)),
        _ => None,
    }
}

fn key_of(msg: &str, member: &str) -> i64 {
    let t: &[(&str, &[(&str, i64)])] = &[
        ("mcReq", &[("clientDataHash", 1), ("rp", 2), ("user", 3), ("pubKeyCredParams", 4), ("excludeList", 5), ("extensions", 6), ("options", 7), ("pinAuth", 8), ("pinProtocol", 9)]),
        ("mcResp", &[("fmt", 1), ("authData", 2), ("attStmt", 3), ("epAtt", 4), ("largeBlobKey", 5), ("unsignedExtensionOutputs", 6)]),
        ("gaReq", &[("rpId", 1), ("clientDataHash", 2), ("allowList", 3), ("extensions", 4), ("options", 5), ("pinAuth", 6), ("pinProtocol", 7)]),
        ("gaResp", &[("credential", 1), ("authData", 2), ("signature", 3), ("user", 4), ("numberOfCredentials", 5), ("userSelected", 6), ("largeBlobKey", 7), ("unsignedExtensionOutputs", 8)]),
        ("info", &[("versions", 1), ("extensions", 2), ("aaguid", 3), ("options", 4), ("maxMsgSize", 5), ("pinProtocols", 6), ("transports", 9)]),
        ("hmac", &[("keyAgreement", 1), ("saltEnc", 2), ("saltAuth", 3), ("pinUvAuthProtocol", 4)]),
    ];
    t.iter().find(|(m, _)| *m == msg).and_then(|(_, ms)| ms.iter().find(|(n, _)| *n == member)).map(|(_, k)| *k).unwrap_or(-1)
}

fn to_bytes(v: &Cbor) -> Vec<u8> {
    let mut out = vec![];
    ciborium::ser::into_writer(v, &mut out).unwrap();
    out
}

pub fn main(args: &Args) {
    util::quiet_panics();
    let mut rng = util::rng(args.seed());
    let cases: Vec<Value> = serde_json::from_str(&std::fs::read_to_string(args.req("cases")).expect("cases")).expect("json");
    let mut out = Sink::create(args.req("out"));
    for c in &cases {
        let msg = c["msg"].as_str().unwrap();
        let present: Vec<String> = c["present"].as_array().unwrap().iter().map(|v| v.as_str().unwrap().to_string()).collect();
        let variant = c["variant"].as_str().unwrap();
        let arg = c["arg"].as_str().unwrap();
        let mut e = json!({"kind": "case", "msg": msg, "present": present, "variant": variant, "arg": arg, "ser": false, "keys": [],
                           "textkeys": 0, "nulls": false, "de": "none", "rt": false, "up": false, "rk": false, "uv": false,
                           "byte": 0, "back": 0, "class": "none", "werr": "none", "wcode": 0});
        // plain request cases carry the option values to use: "rk,up,uv" as three 0/1 digits
        let opts = if variant == "plain" && arg.len() == 3 && arg.bytes().all(|b| b == b'0' || b == b'1') {
            (&arg[0..1] == "1", &arg[1..2] == "1", &arg[2..3] == "1")
        } else {
            (true, true, true)
        };
        let built = util::catch(|| build_with(msg, &present, opts, &mut rng));
        let Ok(Ok((plain, plain_dbg))) = built else {
            out.emit(e);
            continue;
        };
        e["ser"] = json!(true);
        let Ok(Cbor::Map(entries)) = ciborium::de::from_reader::<Cbor, _>(&plain[..]) else {
            out.emit(e);
            continue;
        };
        e["keys"] = json!(entries.iter().filter_map(|(k, _)| k.as_integer().and_then(|i| i64::try_from(i).ok())).collect::<Vec<_>>());
        e["textkeys"] = json!(entries.iter().filter(|(k, _)| k.as_integer().is_none()).count());
        e["nulls"] = json!(entries.iter().any(|(_, v)| v.is_null()));
        // the input actually fed to the deserialiser
        let mut fed = entries.clone();
        match variant {
            "unknown-int" => fed.push((Cbor::Integer(arg.parse::<i64>().unwrap().into()), Cbor::Array(vec![Cbor::Text("x".into()), Cbor::Map(vec![])]))),
            "unknown-text" => fed.insert(0, (Cbor::Text(arg.into()), Cbor::Bytes(vec![1, 2, 3]))),
            "dup" => {
                let k = key_of(msg, arg);
                if let Some(pos) = fed.iter().position(|(kk, _)| kk.as_integer().and_then(|i| i64::try_from(i).ok()) == Some(k)) {
                    let dup = fed[pos].clone();
                    fed.push(dup);
                }
            }
            "missing" | "no-options" => {
                let k = key_of(msg, arg);
                fed.retain(|(kk, _)| kk.as_integer().and_then(|i| i64::try_from(i).ok()) != Some(k));
            }
            // a byte-string member of arbitrary length by the specification, given the length in arg ("member:len");
            // "indef": the same bytes as an indefinite-length byte string of two chunks (what another encoder may send)
            "bytes-len" => {
                let (member, len) = arg.split_once(':').unwrap();
                let k = key_of(msg, member);
                if let Some(pos) = fed.iter().position(|(kk, _)| kk.as_integer().and_then(|i| i64::try_from(i).ok()) == Some(k)) {
                    let n: usize = len.parse().unwrap();
                    fed[pos].1 = Cbor::Bytes((0..n).map(|i| (i * 31 + 7) as u8).collect());
                }
            }
            // the options member present, its map carrying only the members named in arg ("rk,uv", "up=false", "")
            "options-partial" => {
                let k = key_of(msg, "options");
                fed.retain(|(kk, _)| kk.as_integer().and_then(|i| i64::try_from(i).ok()) != Some(k));
                let mut m = vec![];
                for part in arg.split(',').filter(|p| !p.is_empty() && *p != "empty") {
                    let (name, val) = part.split_once('=').map(|(a, b)| (a, b == "true")).unwrap_or((part, true));
                    m.push((Cbor::Text(name.into()), Cbor::Bool(val)));
                }
                fed.push((Cbor::Integer(k.into()), Cbor::Map(m)));
            }
            _ => {}
        }
        let fed_bytes = to_bytes(&Cbor::Map(fed));
        match util::catch(|| reparse(msg, &fed_bytes)) {
            Err(_) => e["de"] = json!("crash"),
            Ok(Err(_)) => e["de"] = json!("err"),
            Ok(Ok((again, again_dbg))) => {
                e["de"] = json!("ok");
                // the message types have no PartialEq: two values are equal when their serialisations AND their Debug
                // renderings agree (the latter catches a member that both directions drop consistently)
                e["rt"] = json!(if variant == "no-options" || variant == "options-partial" {
                    true
                } else if variant == "bytes-len" {
                    again == fed_bytes
                } else {
                    again == plain && again_dbg == plain_dbg
                });
                if let Some((up, rk, uv)) = options_of(msg, &fed_bytes) {
                    e["up"] = json!(up);
                    e["rk"] = json!(rk);
                    e["uv"] = json!(uv);
                }
            }
        }
        out.emit(e);
    }
    // all 256 status bytes
    for b in 0..=255u8 {
        let sc = StatusCode::from(b);
        let class = match &sc {
            StatusCode::Ctap1(_) => "ctap1",
            StatusCode::Ctap2(Ctap2Code::Known(_)) => "ctap2-known",
            StatusCode::Ctap2(Ctap2Code::Other(_)) => "ctap2-other",
            StatusCode::Ctap2(Ctap2Code::Extension(_)) => "ctap2-extension",
            StatusCode::Ctap2(Ctap2Code::Vendor(_)) => "ctap2-vendor",
        };
        let w = WebauthnError::from(StatusCode::from(b));
        let (werr, wcode) = match &w {
            WebauthnError::AuthenticatorError(c) => ("AuthenticatorError".to_string(), *c),
            other => (format!("{other:?}"), 0),
        };
        out.emit(json!({"kind": "status", "msg": "none", "present": [], "variant": "none", "arg": "none", "ser": false, "keys": [],
                        "textkeys": 0, "nulls": false, "de": "none", "rt": false, "up": false, "rk": false, "uv": false,
                        "byte": b, "back": u8::from(sc), "class": class, "werr": werr, "wcode": wcode}));
    }
    let n = out.finish();
    println!("{}", json!({"events": n, "cases": cases.len()}));
}
