//! RP-ID binding conformance (C01): concretise the abstract cases enumerated by TLC (RpId!Cases) for rules of
//! the shipped public-suffix list, call RpIdVerifier::assert_domain / is_valid_rp_id and record the outcome.
use crate::psl::{parse_dat, Rules, DAT};
use crate::util::{self, Args, Sink};
use passkey_client::{Origin, RpIdVerifier, UnverifiedAssetLink, WebauthnError};
use public_suffix::{EffectiveTLDProvider, Error, DEFAULT_PROVIDER};
use rand::{seq::SliceRandom, Rng};
use serde_json::{json, Value};
use url::{Host, Url};

const FINGERPRINT: &str =
    "B3:5B:68:D5:CE:84:50:55:7C:6A:55:FD:64:B5:1F:EA:C1:10:CB:36:D6:A3:52:1C:59:48:DB:3A:38:0A:34:A9";

/// A provider over the tiny list RpId!CustomN/W/E ("test", "co.test", "*.wild.test", "!ok.wild.test").
pub struct TinyProvider;

impl TinyProvider {
    fn suffix_len(labels: &[&str]) -> usize {
        let n = labels.len();
        let suf = |k: usize| labels[n - k..].join(".");
        // exception rules win
        if n >= 3 && suf(3) == "ok.wild.test" {
            return 2;
        }
        let mut best = 0;
        for k in 1..=n {
            let s = suf(k);
            if s == "test" || s == "co.test" {
                best = best.max(k);
            }
            if k >= 2 && suf(k - 1) == "wild.test" {
                best = best.max(k);
            }
        }
        if best == 0 {
            1
        } else {
            best
        }
    }
}

impl EffectiveTLDProvider for TinyProvider {
    fn effective_tld_plus_one<'a>(&self, domain: &'a str) -> Result<&'a str, Error> {
        let labels: Vec<&str> = domain.split('.').collect();
        if labels.iter().any(|l| l.is_empty()) {
            return Err(Error::EmptyLabel);
        }
        let s = Self::suffix_len(&labels);
        if labels.len() <= s {
            return Err(Error::CannotDeriveETldPlus1);
        }
        let skip: usize = labels[..labels.len() - s - 1].iter().map(|l| l.len() + 1).sum();
        Ok(&domain[skip..])
    }
}

fn err_name(e: &WebauthnError) -> String {
    match e {
        WebauthnError::AuthenticatorError(b) => format!("AuthenticatorError({b})"),
        other => format!("{other:?}"),
    }
}

fn labels(s: &str) -> Vec<String> {
    s.split('.').map(|l| l.to_string()).collect()
}

struct RuleCtx {
    suffix: Vec<String>, // a public suffix under this rule
    reg: Vec<String>,    // a registrable domain directly below it
}

fn synth(rng: &mut impl Rng) -> String {
    const A: &[u8] = b"abcdefghijklmnopqrstuvwxyz0123456789";
    let n = rng.gen_range(2..=7);
    (0..n).map(|_| A[rng.gen_range(0..A.len())] as char).collect()
}

fn ctx_of(kind: u8, r: &[String], rng: &mut impl Rng) -> RuleCtx {
    match kind {
        0 => {
            let mut reg = r.to_vec();
            reg.insert(0, synth(rng));
            RuleCtx { suffix: r.to_vec(), reg }
        }
        1 => {
            let mut s = r.to_vec();
            s.insert(0, synth(rng));
            let mut reg = s.clone();
            reg.insert(0, synth(rng));
            RuleCtx { suffix: s, reg }
        }
        _ => RuleCtx { suffix: r[1..].to_vec(), reg: r.to_vec() },
    }
}

/// (host string, is it usable) for a host shape
fn host_of(shape: &str, c: &RuleCtx) -> Option<String> {
    Some(match shape {
        "multi" => format!("login.app.{}", c.reg.join(".")),
        "reg" => c.reg.join("."),
        "suffix" => c.suffix.join("."),
        "single" => "intranet".to_string(),
        "localhost" => "localhost".to_string(),
        "sublocalhost" => "dev.localhost".to_string(),
        "evilreg" => format!("evil{}", c.reg.join(".")),
        "ipv4" => "192.168.1.10".to_string(),
        "ipv6" => "[2001:db8::1]".to_string(),
        "trailingdot" => format!("{}.", c.reg.join(".")),
        "upper" => c.reg.join(".").to_uppercase(),
        "uppersuffix" => c.suffix.join(".").to_uppercase(),
        // the Unicode spelling of an IDN suffix / registrable name (Android hosts are not normalised by `url`)
        "unicodesuffix" => idna::domain_to_unicode(&c.suffix.join(".")).0,
        "unicodereg" => idna::domain_to_unicode(&c.reg.join(".")).0,
        _ => return None,
    })
}

fn rp_of(rel: &str, host: &str, c: &RuleCtx, rng: &mut impl Rng) -> Option<Option<String>> {
    let reg = c.reg.join(".");
    Some(match rel {
        "absent" => None,
        "equal" => Some(host.to_string()),
        "parent" => Some(match host.split_once('.') {
            Some((_, rest)) if !rest.is_empty() => rest.to_string(),
            _ => host.to_string(),
        }),
        "reg" => Some(reg),
        "suffix" => Some(c.suffix.join(".")),
        "tld" => Some(host.trim_end_matches('.').rsplit('.').next().unwrap_or("").to_string()),
        "charsuffix" => {
            let mut it = host.char_indices();
            it.next();
            Some(it.next().map(|(i, _)| host[i..].to_string()).unwrap_or_default())
        }
        "unrelated" => Some(format!("other-{}.org", synth(rng))),
        "empty" => Some(String::new()),
        "leadingdot" => Some(format!(".{reg}")),
        "trailingdot" => Some(format!("{reg}.")),
        "localhost" => Some("localhost".to_string()),
        "unicode" => Some(idna::domain_to_unicode(&reg).0),
        "upper" => Some(reg.to_uppercase()),
        _ => return None,
    })
}

struct Case<'a> {
    abs: Value,
    kind: &'a str,
    scheme: &'a str,
    port: &'a str,
    host: String,
    rp: Option<String>,
    flag: bool,
    provider: &'a str,
}

fn run_case(c: &Case) -> Option<Value> {
    let rp = c.rp.as_deref();
    // the origin
    let (origin, hostkind, host_str, schemelc, origin_text): (Origin, &str, String, String, String) = match c.kind {
        "web" => {
            let port = if c.port == "none" { String::new() } else { format!(":{}", c.port) };
            let text = format!("{}://{}{}", c.scheme, c.host, port);
            let url = Url::parse(&text).ok()?;
            let (hk, hs) = match url.host() {
                Some(Host::Domain(d)) => ("domain", d.to_string()),
                Some(Host::Ipv4(a)) => ("ipv4", a.to_string()),
                Some(Host::Ipv6(a)) => ("ipv6", a.to_string()),
                None => ("none", String::new()),
            };
            let scheme = url.scheme().to_ascii_lowercase();
            (Origin::Web(std::borrow::Cow::Owned(url)), hk, hs, scheme, text)
        }
        _ => {
            let asset = Url::parse(&format!("https://{}/.well-known/assetlinks.json", c.host.to_lowercase()))
                .ok()
                .filter(|u| u.path() == "/.well-known/assetlinks.json")
                .unwrap_or_else(|| Url::parse("https://example.com/.well-known/assetlinks.json").unwrap());
            let link = UnverifiedAssetLink::new("com.example.app", FINGERPRINT, c.host.clone(), asset).ok()?;
            (Origin::Android(link), "domain", c.host.clone(), "none".to_string(), format!("android:{}", c.host))
        }
    };
    let res = util::catch(|| {
        let r = match c.provider {
            "default" => RpIdVerifier::new(DEFAULT_PROVIDER)
                .allows_insecure_localhost(c.flag)
                .assert_domain(&origin, rp)
                .map(|s| s.to_string()),
            _ => RpIdVerifier::new(TinyProvider)
                .allows_insecure_localhost(c.flag)
                .assert_domain(&origin, rp)
                .map(|s| s.to_string()),
        };
        r
    });
    let eff = rp.map(|s| s.to_string()).unwrap_or_else(|| host_str.clone());
    let canon = idna::domain_to_ascii(&eff);
    let (resname, out, crash) = match &res {
        Ok(Ok(s)) => ("ok".to_string(), labels(s), false),
        Ok(Err(e)) => (err_name(e), vec![], false),
        Err(_) => ("crash".to_string(), vec![], true),
    };
    Some(json!({
        "case": c.abs, "kind": c.kind, "schemelc": schemelc, "hostkind": hostkind, "host": labels(&host_str),
        "rpgiven": rp.is_some(), "rp": rp.map(labels).unwrap_or_default(), "flag": c.flag, "provider": c.provider,
        "cok": canon.is_ok(), "ceff": canon.as_ref().map(|s| labels(s)).unwrap_or_default(),
        "charsuffix": rp.map(|r| host_str.ends_with(r)).unwrap_or(true),
        "rpdot": rp.map(|r| r.starts_with('.')).unwrap_or(false),
        "res": resname, "out": out, "crash": crash,
        "origin": origin_text, "rpstr": rp.unwrap_or("(absent)"),
    }))
}

fn valid_case(rp: &str, flag: bool, provider: &str) -> Value {
    let res = util::catch(|| match provider {
        "default" => RpIdVerifier::new(DEFAULT_PROVIDER).allows_insecure_localhost(flag).is_valid_rp_id(rp),
        _ => RpIdVerifier::new(TinyProvider).allows_insecure_localhost(flag).is_valid_rp_id(rp),
    });
    let canon = idna::domain_to_ascii(rp);
    json!({
        "case": {"kind": "valid", "scheme": "none", "port": "none", "host": "none", "rp": "given", "flag": flag, "provider": provider},
        "kind": "valid", "schemelc": "none", "hostkind": "domain", "host": labels(rp),
        "rpgiven": false, "rp": Vec::<String>::new(), "flag": flag, "provider": provider,
        "cok": canon.is_ok(), "ceff": canon.as_ref().map(|s| labels(s)).unwrap_or_default(),
        "charsuffix": true, "rpdot": false,
        "res": match &res { Ok(true) => "ok", Ok(false) => "rejected", Err(_) => "crash" },
        "out": if matches!(res, Ok(true)) { labels(rp) } else { vec![] }, "crash": res.is_err(),
        "origin": "(is_valid_rp_id)", "rpstr": rp,
    })
}

fn tiny_rules() -> Rules {
    Rules {
        normal: vec![labels("test"), labels("co.test")],
        wild: vec![labels("wild.test")],
        exc: vec![labels("ok.wild.test")],
    }
}

pub fn drive(args: &Args) {
    let rules = parse_dat(args.get("dat").unwrap_or(DAT));
    let tiny = tiny_rules();
    let mut rng = util::rng(args.seed());
    let cases: Vec<Value> = serde_json::from_str(&std::fs::read_to_string(args.req("cases")).expect("cases file")).expect("cases json");
    let per_case = args.num("per-case", 1) as usize;
    let mut out = Sink::create(args.req("out"));
    let all = |r: &Rules| -> Vec<(u8, Vec<String>)> {
        r.normal.iter().map(|x| (0u8, x.clone()))
            .chain(r.wild.iter().map(|x| (1u8, x.clone())))
            .chain(r.exc.iter().map(|x| (2u8, x.clone())))
            .collect()
    };
    let all_default = all(&rules);
    let all_tiny = all(&tiny);
    let idn: Vec<(u8, Vec<String>)> = all_default.iter().filter(|(_, r)| r.iter().any(|l| l.starts_with("xn--"))).cloned().collect();
    let mut skipped = 0u64;
    // 1. the abstract product, each case concretised for `per_case` rules (one of them an IDN rule for the default list)
    for abs in &cases {
        let provider = abs["provider"].as_str().unwrap();
        for k in 0..per_case + 1 {
            let (kind, r) = if provider == "custom" {
                all_tiny.choose(&mut rng).unwrap().clone()
            } else if k == per_case {
                idn.choose(&mut rng).unwrap().clone()
            } else {
                all_default.choose(&mut rng).unwrap().clone()
            };
            let ctx = ctx_of(kind, &r, &mut rng);
            let Some(host) = host_of(abs["host"].as_str().unwrap(), &ctx) else { continue };
            let Some(rp) = rp_of(abs["rp"].as_str().unwrap(), &host, &ctx, &mut rng) else { continue };
            let c = Case {
                abs: abs.clone(),
                kind: abs["kind"].as_str().unwrap(),
                scheme: abs["scheme"].as_str().unwrap(),
                port: abs["port"].as_str().unwrap(),
                host,
                rp,
                flag: abs["flag"].as_bool().unwrap(),
                provider,
            };
            match run_case(&c) {
                Some(ev) => out.emit(ev),
                None => skipped += 1,
            }
        }
    }
    let product = out.n;
    // 2. every rule of the shipped list, the relations the property names
    let per_rule: &[(&str, &str, &str)] = &[
        ("web", "multi", "suffix"),      // the public suffix itself as RP ID
        ("web", "multi", "reg"),         // the registrable domain: the legitimate case
        ("web", "evilreg", "reg"),       // character-level suffix that is not label-aligned
        ("web", "suffix", "absent"),     // the origin host is itself a public suffix
        ("android", "uppersuffix", "absent"),
        ("android", "reg", "suffix"),
        ("android", "unicodesuffix", "absent"),
        ("android", "unicodereg", "absent"),
    ];
    for (kind, r) in &all_default {
        let ctx = ctx_of(*kind, r, &mut rng);
        for (okind, hshape, rel) in per_rule {
            let Some(host) = host_of(hshape, &ctx) else { continue };
            let Some(rp) = rp_of(rel, &host, &ctx, &mut rng) else { continue };
            let abs = json!({"kind": okind, "scheme": "https", "port": "none", "host": hshape, "rp": rel, "flag": false, "provider": "default"});
            let c = Case { abs, kind: okind, scheme: "https", port: "none", host, rp, flag: false, provider: "default" };
            match run_case(&c) {
                Some(ev) => out.emit(ev),
                None => skipped += 1,
            }
        }
        // is_valid_rp_id on the suffix and on the registrable domain
        out.emit(valid_case(&ctx.suffix.join("."), false, "default"));
        out.emit(valid_case(&ctx.reg.join("."), false, "default"));
        // a wildcard rule makes EVERY label below its base a public suffix - also the labels that occur in the list
        // as parents of deeper rules (interior nodes of any compiled table): use those as the suffix as well
        if *kind == 1 {
            let interior: Vec<String> = all_default
                .iter()
                .filter(|(k2, r2)| *k2 != 2 && r2.len() > r.len() && r2[r2.len() - r.len()..] == r[..])
                .filter_map(|(_, r2)| r2.get(r2.len() - r.len() - 1).cloned())
                .filter(|l| !all_default.iter().any(|(k3, r3)| *k3 == 2 && r3.len() == r.len() + 1 && r3[0] == *l && r3[1..] == r[..]))
                .collect();
            for l in interior.iter().take(6) {
                let mut suffix = r.clone();
                suffix.insert(0, l.clone());
                let mut reg = suffix.clone();
                reg.insert(0, synth(&mut rng));
                let ictx = RuleCtx { suffix, reg };
                for (okind, hshape, rel) in per_rule.iter().take(4) {
                    let Some(host) = host_of(hshape, &ictx) else { continue };
                    let Some(rp) = rp_of(rel, &host, &ictx, &mut rng) else { continue };
                    let abs = json!({"kind": okind, "scheme": "https", "port": "none", "host": hshape, "rp": rel, "flag": false, "provider": "default"});
                    let c = Case { abs, kind: okind, scheme: "https", port: "none", host, rp, flag: false, provider: "default" };
                    match run_case(&c) {
                        Some(ev) => out.emit(ev),
                        None => skipped += 1,
                    }
                }
                out.emit(valid_case(&ictx.suffix.join("."), false, "default"));
            }
        }
    }
    for (flag, prov) in [(false, "default"), (true, "default"), (false, "custom"), (true, "custom")] {
        for rp in ["localhost", "notlocalhost", "", ".", "com", "test", "a.test", "co.test", "x.co.test", "ok.wild.test", "z.wild.test"] {
            out.emit(valid_case(rp, flag, prov));
        }
    }
    let n = out.finish();
    println!("{}", json!({"events": n, "product_events": product, "abstract_cases": cases.len(), "rules": all_default.len(), "skipped_unparseable": skipped}));
}

pub fn main(args: &Args) {
    util::quiet_panics();
    match args.pos.first().map(|s| s.as_str()) {
        Some("drive") => drive(args),
        Some("one") => {
            let c = Case {
                abs: json!({"kind": args.req("kind"), "scheme": args.req("scheme"), "port": "none", "host": "given", "rp": "given",
                            "flag": args.get("flag").is_some(), "provider": args.get("provider").unwrap_or("default")}),
                kind: args.req("kind"),
                scheme: args.req("scheme"),
                port: "none",
                host: args.req("host").to_string(),
                rp: args.get("rp").map(|s| s.to_string()),
                flag: args.get("flag").is_some(),
                provider: args.get("provider").unwrap_or("default"),
            };
            println!("{}", run_case(&c).unwrap_or(json!({"skipped": true})));
        }
        _ => {
            eprintln!("usage: pkverif rpid drive --cases FILE --out FILE | one --kind web --scheme https --host H [--rp R]");
            std::process::exit(2)
        }
    }
}
