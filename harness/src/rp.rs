//! The relying-party role: an independent reading of what the library returns.
//! Authenticator data is decoded by this module's own decoder (not `AuthenticatorData::from_slice`), hashes are
//! computed with the `sha2`/`hmac` crates directly (not through passkey_types::crypto), signatures are verified
//! with `p256`'s verifier.  These crates are the trusted base of the byte-level verdicts.
use ciborium::value::Value as Cbor;
use hmac::{Hmac, Mac};
use p256::ecdsa::signature::Verifier;
use p256::ecdsa::{Signature, VerifyingKey};
use p256::elliptic_curve::sec1::FromEncodedPoint;
use p256::{EncodedPoint, PublicKey};
use sha2::{Digest, Sha256};

pub fn sha256(data: &[u8]) -> [u8; 32] {
    Sha256::digest(data).into()
}

pub fn hmac_sha256(key: &[u8], data: &[u8]) -> [u8; 32] {
    let mut m = Hmac::<Sha256>::new_from_slice(key).expect("any key length");
    m.update(data);
    m.finalize().into_bytes().into()
}

pub fn b64url(data: &[u8]) -> String {
    const A: &[u8; 64] = b"ABCDEFGHIJKLMNOPQRSTUVWXYZabcdefghijklmnopqrstuvwxyz0123456789-_";
    let mut s = String::new();
    for c in data.chunks(3) {
        let n = (u32::from(c[0]) << 16) | (u32::from(*c.get(1).unwrap_or(&0)) << 8) | u32::from(*c.get(2).unwrap_or(&0));
        s.push(A[(n >> 18) as usize & 63] as char);
        s.push(A[(n >> 12) as usize & 63] as char);
        if c.len() > 1 {
            s.push(A[(n >> 6) as usize & 63] as char);
        }
        if c.len() > 2 {
            s.push(A[n as usize & 63] as char);
        }
    }
    s
}

pub fn b64url_decode(s: &str) -> Option<Vec<u8>> {
    let val = |c: u8| -> Option<u32> {
        Some(match c {
            b'A'..=b'Z' => c - b'A',
            b'a'..=b'z' => c - b'a' + 26,
            b'0'..=b'9' => c - b'0' + 52,
            b'-' => 62,
            b'_' => 63,
            _ => return None,
        } as u32)
    };
    let b = s.as_bytes();
    if b.len() % 4 == 1 {
        return None;
    }
    let mut out = vec![];
    for c in b.chunks(4) {
        let mut n = 0u32;
        for (i, ch) in c.iter().enumerate() {
            n |= val(*ch)? << (18 - 6 * i);
        }
        out.push((n >> 16) as u8);
        if c.len() > 2 {
            out.push((n >> 8) as u8);
        }
        if c.len() > 3 {
            out.push(n as u8);
        }
    }
    Some(out)
}

#[derive(Debug, Clone)]
pub struct Attested {
    pub aaguid: [u8; 16],
    pub cred_id: Vec<u8>,
    pub cose: Cbor,
    pub cose_bytes: Vec<u8>,
}

#[derive(Debug, Clone)]
pub struct AuthData {
    pub rp_hash: [u8; 32],
    pub flags: u8,
    pub counter: u32,
    pub attested: Option<Attested>,
    pub ext: Option<Cbor>,
    /// every byte accounted for, sections present exactly as flagged
    pub well_formed: bool,
}

/// rpIdHash(32) || flags(1) || counter(4, big endian) || [aaguid(16) || L(2) || id(L) || COSE key] || [CBOR map]
pub fn parse_authdata(b: &[u8]) -> Option<AuthData> {
    if b.len() < 37 {
        return None;
    }
    let rp_hash: [u8; 32] = b[..32].try_into().unwrap();
    let flags = b[32];
    let counter = u32::from_be_bytes(b[33..37].try_into().unwrap());
    let mut rest = &b[37..];
    let mut well_formed = true;
    let attested = if flags & 0x40 != 0 {
        if rest.len() < 18 {
            return None;
        }
        let aaguid: [u8; 16] = rest[..16].try_into().unwrap();
        let l = usize::from(u16::from_be_bytes([rest[16], rest[17]]));
        if rest.len() < 18 + l {
            return None;
        }
        let cred_id = rest[18..18 + l].to_vec();
        rest = &rest[18 + l..];
        let before = rest.len();
        let mut cur = std::io::Cursor::new(rest);
        let cose: Cbor = ciborium::de::from_reader(&mut cur).ok()?;
        let used = cur.position() as usize;
        let cose_bytes = rest[..used].to_vec();
        rest = &rest[used..];
        debug_assert!(before >= used);
        Some(Attested { aaguid, cred_id, cose, cose_bytes })
    } else {
        None
    };
    let ext = if flags & 0x80 != 0 {
        let mut cur = std::io::Cursor::new(rest);
        let v: Cbor = ciborium::de::from_reader(&mut cur).ok()?;
        let used = cur.position() as usize;
        rest = &rest[used..];
        Some(v)
    } else {
        None
    };
    if !rest.is_empty() {
        well_formed = false;
    }
    Some(AuthData { rp_hash, flags, counter, attested, ext, well_formed })
}

pub struct CoseInfo {
    /// the integer labels present, sorted
    pub labels: Vec<i64>,
    pub kty: Option<i64>,
    pub alg: Option<i64>,
    pub crv: Option<i64>,
    pub x: Option<Vec<u8>>,
    pub y: Option<Vec<u8>>,
    pub non_int_labels: usize,
}

pub fn cose_info(v: &Cbor) -> Option<CoseInfo> {
    let m = v.as_map()?;
    let mut info = CoseInfo { labels: vec![], kty: None, alg: None, crv: None, x: None, y: None, non_int_labels: 0 };
    for (k, val) in m {
        let Some(i) = k.as_integer().and_then(|i| i64::try_from(i).ok()) else {
            info.non_int_labels += 1;
            continue;
        };
        info.labels.push(i);
        let int = val.as_integer().and_then(|i| i64::try_from(i).ok());
        match i {
            1 => info.kty = int,
            3 => info.alg = int,
            -1 => info.crv = int,
            -2 => info.x = val.as_bytes().cloned(),
            -3 => info.y = val.as_bytes().cloned(),
            _ => {}
        }
    }
    info.labels.sort();
    Some(info)
}

/// SEC1 uncompressed point if (x, y) is on P-256.
pub fn p256_point(x: &[u8], y: &[u8]) -> Option<Vec<u8>> {
    if x.len() != 32 || y.len() != 32 {
        return None;
    }
    let ep = EncodedPoint::from_affine_coordinates(x.into(), y.into(), false);
    let pk: Option<PublicKey> = PublicKey::from_encoded_point(&ep).into();
    pk.map(|_| ep.as_bytes().to_vec())
}

pub fn verify_der(sec1: &[u8], msg: &[u8], der: &[u8]) -> bool {
    let Ok(vk) = VerifyingKey::from_sec1_bytes(sec1) else { return false };
    let Ok(sig) = Signature::from_der(der) else { return false };
    vk.verify(msg, &sig).is_ok()
}

/// fixed-size r || s signature
pub fn verify_raw(sec1: &[u8], msg: &[u8], raw: &[u8]) -> bool {
    let Ok(vk) = VerifyingKey::from_sec1_bytes(sec1) else { return false };
    let Ok(sig) = Signature::from_slice(raw) else { return false };
    vk.verify(msg, &sig).is_ok()
}

/// The SEC1 point inside a DER SubjectPublicKeyInfo for id-ecPublicKey / prime256v1 (fixed 26-byte prefix).
pub fn sec1_from_spki(der: &[u8]) -> Option<Vec<u8>> {
    const PREFIX: [u8; 26] = [
        0x30, 0x59, 0x30, 0x13, 0x06, 0x07, 0x2a, 0x86, 0x48, 0xce, 0x3d, 0x02, 0x01, 0x06, 0x08, 0x2a, 0x86, 0x48, 0xce,
        0x3d, 0x03, 0x01, 0x07, 0x03, 0x42, 0x00,
    ];
    if der.len() == 26 + 65 && der[..26] == PREFIX && der[26] == 0x04 {
        Some(der[26..].to_vec())
    } else {
        None
    }
}

pub fn flag_names(f: u8) -> Vec<&'static str> {
    let mut v = vec![];
    for (bit, name) in [(0x01, "UP"), (0x02, "RFU1"), (0x04, "UV"), (0x08, "BE"), (0x10, "BS"), (0x20, "RFU2"), (0x40, "AT"), (0x80, "ED")] {
        if f & bit != 0 {
            v.push(name);
        }
    }
    v
}

pub fn selftest() -> Result<(), String> {
    // FIPS 180-2 / RFC 4231 vectors: the trusted hashing base answers as published
    let h = sha256(b"abc");
    if crate::cer::hex(&h) != "ba7816bf8f01cfea414140de5dae2223b00361a396177a9cb410ff61f20015ad" {
        return Err("sha256 vector".into());
    }
    let m = hmac_sha256(&[0x0b; 20], b"Hi There");
    if crate::cer::hex(&m) != "b0344c61d8db38535ca8afceaf0bf12b881dc200c9833da726e9376c2e32cff7" {
        return Err("hmac vector".into());
    }
    for n in 0..70usize {
        let data: Vec<u8> = (0..n).map(|i| (i * 37 + 11) as u8).collect();
        if b64url_decode(&b64url(&data)).as_deref() != Some(&data[..]) {
            return Err("base64url round trip".into());
        }
    }
    if b64url(b"\xfb\xff") != "-_8" {
        return Err("base64url alphabet".into());
    }
    Ok(())
}
