//! C15: decoders of untrusted input.  `dec gen` concretises the cases of Decoders.tla into inputs, `dec run` feeds
//! them to the real decoders in isolated child processes (address-space limit, per-case alarm, counting allocator).
use crate::util::{self, Args, Sink};
use passkey_types::ctap2::extensions::HmacGetSecretInput;
use passkey_types::ctap2::{get_assertion, get_info, make_credential, AuthenticatorData};
use passkey_types::webauthn::{
    AuthenticatedPublicKeyCredential, CollectedClientData, CreatedPublicKeyCredential, CredentialCreationOptions, CredentialRequestOptions,
};
use passkey_types::Bytes;
use rand::{seq::SliceRandom, Rng, RngCore};
use serde_json::{json, Value};
use std::io::Write;

fn hexs(b: &[u8]) -> String {
    crate::cer::hex(b)
}
fn unhex(s: &str) -> Vec<u8> {
    (0..s.len() / 2).map(|i| u8::from_str_radix(&s[2 * i..2 * i + 2], 16).unwrap()).collect()
}

// ------------------------------------------------------------------------------------------ valid encodings
fn valid(dec: &str, rng: &mut rand::rngs::StdRng) -> Vec<u8> {
    let all = |m: &str| -> Vec<String> {
        match m {
            "mcReq" => vec!["excludeList", "extensions", "pinAuth", "pinProtocol"],
            "mcResp" => vec!["epAtt", "largeBlobKey", "unsignedExtensionOutputs"],
            "gaReq" => vec!["allowList", "extensions", "pinAuth", "pinProtocol"],
            "gaResp" => vec!["credential", "user", "numberOfCredentials", "userSelected", "largeBlobKey", "unsignedExtensionOutputs"],
            "info" => vec!["extensions", "options", "maxMsgSize", "pinProtocols", "transports"],
            _ => vec!["pinUvAuthProtocol"],
        }
        .into_iter()
        .map(|s| s.to_string())
        .collect()
    };
    let rnd = |rng: &mut rand::rngs::StdRng, n: usize| -> Vec<u8> {
        let mut v = vec![0u8; n];
        rng.fill_bytes(&mut v);
        v
    };
    match dec {
        "mcReq" | "mcResp" | "gaReq" | "gaResp" | "info" | "hmac" => crate::ctapcodec::build_pub(dec, &all(dec), rng),
        "cose" => {
            use coset::CborSerializable;
            coset::CoseKeyBuilder::new_ec2_pub_key(coset::iana::EllipticCurve::P_256, rnd(rng, 32), rnd(rng, 32))
                .algorithm(coset::iana::Algorithm::ES256)
                .build()
                .to_vec()
                .unwrap()
        }
        "bytesCbor" => {
            // a byte string given as a CBOR array of integers
            let mut out = vec![];
            ciborium::ser::into_writer(&ciborium::value::Value::Array((0..20u8).map(|i| ciborium::value::Value::Integer(i.into())).collect()), &mut out).unwrap();
            out
        }
        "authdata" => crate::ctapcodec::auth_data_pub(rng, true).to_vec(),
        "jsonCreate" | "jsonGet" => {
            let c = json!({"req": if dec == "jsonCreate" { "create" } else { "get" }, "bin": *["array", "b64url", "b64-pad"].choose(rng).unwrap(),
                           "timeout": "string", "alg": "float", "enum": "none", "member": "top", "opt": "all"});
            serde_json::to_vec(&crate::jsoncodec::doc_pub(&c, rng)).unwrap()
        }
        "jsonCreated" => serde_json::to_vec(&json!({"id": "AQID", "rawId": [1, 2, 3], "type": "public-key", "authenticatorAttachment": "platform",
            "response": {"clientDataJSON": [123, 125], "authenticatorData": rnd(rng, 37), "publicKey": rnd(rng, 91), "publicKeyAlgorithm": -7,
                         "attestationObject": rnd(rng, 60), "transports": ["internal", "hybrid"]},
            "clientExtensionResults": {"credProps": {"rk": true}, "prf": {"enabled": true, "results": {"first": rnd(rng, 32)}}}})).unwrap(),
        "jsonAssertion" => serde_json::to_vec(&json!({"id": "AQID", "rawId": "AQID", "type": "public-key",
            "response": {"clientDataJSON": "e30", "authenticatorData": rnd(rng, 37), "signature": rnd(rng, 70), "userHandle": rnd(rng, 8)},
            "clientExtensionResults": {}})).unwrap(),
        "clientData" => br#"{"type":"webauthn.get","challenge":"ZEvMflZDcwQJmarInnYi88px-6HZcv2Uoxw7-_JOOTg","origin":"https://example.com","crossOrigin":false,"other":{"a":[1,2]}}"#.to_vec(),
        "bytesJson" => serde_json::to_vec(&json!({"a": [1, 2, 3], "b": "AQID", "c": "AQID=="})).unwrap(),
        "bytesStr" => b"ZcPUob9wS72YNHkRPnFypA==".to_vec(),
        "u2fRequest" => {
            let hl = rng.gen_range(0..40usize);
            let data = [rnd(rng, 32), rnd(rng, 32), vec![hl as u8], rnd(rng, hl)].concat();
            let mut f = vec![0u8, 2, 3, 0, 0];
            f.extend_from_slice(&(data.len() as u16).to_be_bytes());
            f.extend_from_slice(&data);
            f
        }
        "u2fRegister" => rnd(rng, 64),
        "u2fAuth" => [rnd(rng, 32), rnd(rng, 32), vec![16u8], rnd(rng, 16)].concat(),
        "hid" => {
            // a message of several packets, framed as [len u16][packet] ...
            let n = rng.gen_range(0..300);
            let payload = rnd(rng, n);
            let mut wire = vec![];
            passkey_transports::hid::Message::new(0x0102_0304, passkey_transports::hid::Command::Cbor, &payload).unwrap().send(&mut wire).unwrap();
            wire.chunks(64).flat_map(|p| [(p.len() as u16).to_be_bytes().to_vec(), p.to_vec()].concat()).collect()
        }
        "salts" => rnd(rng, 64),
        "fingerprint" => b"B3:5B:68:D5:CE:84:50:55:7C:6A:55:FD:64:B5:1F:EA:C1:10:CB:36:D6:A3:52:1C:59:48:DB:3A:38:0A:34:A9".to_vec(),
        "psl" => b"www.example.co.uk".to_vec(),
        _ => b"login.example.com".to_vec(),
    }
}

// ------------------------------------------------------------------------------------------ CBOR header walk
/// offsets of item headers: (offset, major type, header length, argument)
fn cbor_headers(b: &[u8]) -> Vec<(usize, u8, usize, u64)> {
    fn item(b: &[u8], mut p: usize, out: &mut Vec<(usize, u8, usize, u64)>, depth: usize) -> Option<usize> {
        if depth > 64 || p >= b.len() {
            return None;
        }
        let ib = b[p];
        let (major, ai) = (ib >> 5, ib & 31);
        let (hl, arg) = match ai {
            0..=23 => (1, u64::from(ai)),
            24 => (2, u64::from(*b.get(p + 1)?)),
            25 => (3, u64::from(u16::from_be_bytes([*b.get(p + 1)?, *b.get(p + 2)?]))),
            26 => (5, u64::from(u32::from_be_bytes(b.get(p + 1..p + 5)?.try_into().ok()?))),
            27 => (9, u64::from_be_bytes(b.get(p + 1..p + 9)?.try_into().ok()?)),
            _ => return None,
        };
        out.push((p, major, hl, arg));
        p += hl;
        match major {
            2 | 3 => Some(p + arg as usize),
            4 => {
                for _ in 0..arg {
                    p = item(b, p, out, depth + 1)?;
                }
                Some(p)
            }
            5 => {
                for _ in 0..2 * arg {
                    p = item(b, p, out, depth + 1)?;
                }
                Some(p)
            }
            6 => item(b, p, out, depth + 1),
            _ => Some(p),
        }
    }
    let mut out = vec![];
    let _ = item(b, 0, &mut out, 0);
    out
}

/// end offset of the item that starts at p
fn cbor_item_end(b: &[u8], p: usize, scratch: &mut Vec<(usize, u8, usize, u64)>) -> Option<usize> {
    let all = cbor_headers(b);
    let _ = scratch;
    // walk again from p: the header list is in document order, so the end of the item at p is the start of the next
    // header that is not nested inside it; recompute directly instead
    fn end(b: &[u8], p: usize, depth: usize) -> Option<usize> {
        if depth > 64 || p >= b.len() {
            return None;
        }
        let (major, ai) = (b[p] >> 5, b[p] & 31);
        let (hl, arg) = match ai {
            0..=23 => (1usize, u64::from(ai)),
            24 => (2, u64::from(*b.get(p + 1)?)),
            25 => (3, u64::from(u16::from_be_bytes([*b.get(p + 1)?, *b.get(p + 2)?]))),
            26 => (5, u64::from(u32::from_be_bytes(b.get(p + 1..p + 5)?.try_into().ok()?))),
            27 => (9, u64::from_be_bytes(b.get(p + 1..p + 9)?.try_into().ok()?)),
            _ => return None,
        };
        let mut q = p + hl;
        match major {
            2 | 3 => Some(q + arg as usize),
            4 | 5 => {
                for _ in 0..(if major == 4 { arg } else { 2 * arg }) {
                    q = end(b, q, depth + 1)?;
                }
                Some(q)
            }
            6 => end(b, q, depth + 1),
            _ => Some(q),
        }
    }
    let _ = all;
    end(b, p, 0)
}

fn declared(arg: &str, actual: u64) -> u64 {
    match arg {
        "plus1" => actual + 1,
        "minus1" => actual.saturating_sub(1),
        "zero" => 0,
        "2^16" => 1 << 16,
        "2^28" => 1 << 28,
        "2^31" => 1 << 31,
        "2^32" => 1 << 32,
        "2^40" => 1 << 40,
        "2^63" => 1 << 63,
        _ => u64::MAX,
    }
}

fn mutate(dec: &str, m: &str, arg: &str, base: &[u8], rng: &mut rand::rngs::StdRng) -> Vec<u8> {
    let mut b = base.to_vec();
    let cborish = ["mcReq", "mcResp", "gaReq", "gaResp", "info", "hmac", "cose", "bytesCbor"].contains(&dec);
    match m {
        "valid" => b,
        "empty" => vec![],
        "truncate" => {
            let n = if b.is_empty() { 0 } else { rng.gen_range(0..b.len()) };
            b.truncate(n);
            b
        }
        "extend" => {
            let n = rng.gen_range(1..64);
            b.extend((0..n).map(|_| rng.gen::<u8>()));
            b
        }
        "bitflip" => {
            for _ in 0..rng.gen_range(1..4) {
                if !b.is_empty() {
                    let i = rng.gen_range(0..b.len());
                    b[i] ^= 1 << rng.gen_range(0..8);
                }
            }
            b
        }
        "byteset" => {
            if !b.is_empty() {
                let i = rng.gen_range(0..b.len());
                b[i] = *[0u8, 0xff, 0x7f, 0x80, 0x9f, 0xbf, 0x5f, 0x7b, 0x5b].choose(rng).unwrap();
            }
            b
        }
        "random" => {
            let n = rng.gen_range(0..200);
            (0..n).map(|_| rng.gen()).collect()
        }
        "repeat" => {
            let unit: Vec<u8> = if b.is_empty() { vec![0] } else { b[..b.len().min(rng.gen_range(1..8))].to_vec() };
            unit.iter().cycle().take(rng.gen_range(1000..60000)).copied().collect()
        }
        "deepnest" => {
            let n: usize = arg.parse().unwrap();
            if cborish || dec == "authdata" {
                // n nested one-element arrays (or maps), possibly spliced where the original map began
                let open: u8 = *[0x81u8, 0xa1, 0x9f, 0xbf, 0xc1].choose(rng).unwrap();
                let mut v = if dec == "authdata" { b[..37.min(b.len())].to_vec() } else { vec![] };
                if dec == "authdata" && v.len() > 32 {
                    v[32] |= 0x80;
                }
                v.extend(std::iter::repeat(open).take(n));
                v.push(0x01);
                v
            } else {
                let open = *[b"[", b"{"].choose(rng).unwrap();
                let mut v = vec![];
                for _ in 0..n {
                    v.extend_from_slice(open);
                    if open == b"{" {
                        v.extend_from_slice(b"\"publicKey\":");
                    }
                }
                v
            }
        }
        "lenfield" => {
            if cborish {
                let hs: Vec<_> = cbor_headers(&b).into_iter().filter(|h| matches!(h.1, 2 | 3 | 4 | 5)).collect();
                if let Some(&(off, major, hl, actual)) = hs.choose(rng) {
                    let d = declared(arg, actual);
                    let mut v = b[..off].to_vec();
                    v.push((major << 5) | 27);
                    v.extend_from_slice(&d.to_be_bytes());
                    v.extend_from_slice(&b[off + hl..]);
                    return v;
                }
                b
            } else if dec == "authdata" {
                // the credential-id length field (offset 53) or a CBOR header inside the key / extensions
                if b.len() > 55 && rng.gen_bool(0.5) {
                    let d = declared(arg, u64::from(u16::from_be_bytes([b[53], b[54]])));
                    b[53..55].copy_from_slice(&(d.min(65535) as u16).to_be_bytes());
                    b
                } else {
                    let tail_at = 55 + usize::from(u16::from_be_bytes([b[53], b[54]]));
                    let hs: Vec<_> = cbor_headers(&b[tail_at.min(b.len())..]).into_iter().filter(|h| matches!(h.1, 2 | 3 | 4 | 5)).collect();
                    if let Some(&(off, major, hl, actual)) = hs.choose(rng) {
                        let off = off + tail_at;
                        let d = declared(arg, actual);
                        let mut v = b[..off].to_vec();
                        v.push((major << 5) | 27);
                        v.extend_from_slice(&d.to_be_bytes());
                        v.extend_from_slice(&b[off + hl..]);
                        return v;
                    }
                    b
                }
            } else if dec == "u2fRequest" {
                let actual = u64::from(u16::from_be_bytes([b[5], b[6]]));
                let d = declared(arg, actual);
                b[3..7].copy_from_slice(&(d.min(u64::from(u32::MAX)) as u32).to_be_bytes());
                if rng.gen_bool(0.3) {
                    b.truncate(rng.gen_range(0..8));
                }
                b
            } else if dec == "u2fAuth" {
                if b.len() > 64 {
                    b[64] = declared(arg, u64::from(b[64])).min(255) as u8;
                }
                b
            } else {
                // hid: rewrite the declared payload length of the initialisation packet
                if b.len() > 9 {
                    let actual = u64::from(u16::from_be_bytes([b[7], b[8]]));
                    b[7..9].copy_from_slice(&(declared(arg, actual).min(65535) as u16).to_be_bytes());
                }
                b
            }
        }
        "resize" => {
            // a byte or text string of the document made shorter / longer CONSISTENTLY (header and content agree): the
            // document stays well-formed CBOR, only the member has a length its consumer may not expect
            let hs: Vec<_> = cbor_headers(&b).into_iter().filter(|h| matches!(h.1, 2 | 3)).collect();
            if let Some(&(off, major, hl, actual)) = hs.choose(rng) {
                let actual = actual as usize;
                let new_len = match arg {
                    "zero" => 0,
                    "minus1" => actual.saturating_sub(1),
                    "plus1" => actual + 1,
                    _ => (2 * actual).max(1),
                };
                let mut v = b[..off].to_vec();
                if new_len < 24 {
                    v.push((major << 5) | new_len as u8);
                } else if new_len < 256 {
                    v.extend_from_slice(&[(major << 5) | 24, new_len as u8]);
                } else {
                    v.push((major << 5) | 25);
                    v.extend_from_slice(&(new_len as u16).to_be_bytes());
                }
                let content = &b[(off + hl).min(b.len())..(off + hl + actual).min(b.len())];
                v.extend(content.iter().copied().chain(std::iter::repeat(0x41)).take(new_len));
                v.extend_from_slice(&b[(off + hl + actual).min(b.len())..]);
                return v;
            }
            b
        }
        "retype" => {
            // one item of the document replaced by a well-formed value of another type (the document stays well-formed)
            if cborish || dec == "authdata" {
                let base_off = if dec == "authdata" { 55 + usize::from(u16::from_be_bytes([*b.get(53).unwrap_or(&0), *b.get(54).unwrap_or(&0)])) } else { 0 };
                let tail = &b[base_off.min(b.len())..];
                let hs = cbor_headers(tail);
                if let Some(&(off, _major, _hl, _)) = hs.choose(rng) {
                    let mut scratch = vec![];
                    let end = cbor_item_end(tail, off, &mut scratch).unwrap_or(tail.len()).min(tail.len());
                    let repl: &[&[u8]] = &[&[0x00], &[0x20], &[0x18, 0xff], &[0x1b, 0xff, 0xff, 0xff, 0xff, 0xff, 0xff, 0xff, 0xff],
                        &[0x3b, 0xff, 0xff, 0xff, 0xff, 0xff, 0xff, 0xff, 0xff], &[0x40], &[0x41, 0x00], &[0x60], &[0x61, 0x61], &[0x80], &[0x81, 0x00],
                        &[0xa0], &[0xa1, 0x00, 0x00], &[0xf4], &[0xf5], &[0xf6], &[0xf7], &[0xf9, 0x7e, 0x00], &[0xfb, 0x7f, 0xf0, 0, 0, 0, 0, 0, 0],
                        &[0xc0, 0x60], &[0xc2, 0x41, 0x01], &[0x9f, 0xff], &[0xbf, 0xff], &[0x5f, 0xff]];
                    let mut v = b[..base_off.min(b.len()) + off].to_vec();
                    v.extend_from_slice(repl.choose(rng).unwrap());
                    v.extend_from_slice(&tail[end..]);
                    return v;
                }
                b
            } else {
                let Ok(mut v) = serde_json::from_slice::<Value>(&b) else { return b };
                fn count(v: &Value) -> usize {
                    1 + match v {
                        Value::Array(a) => a.iter().map(count).sum(),
                        Value::Object(m) => m.values().map(count).sum(),
                        _ => 0,
                    }
                }
                fn replace(v: &mut Value, k: &mut usize, with: &Value) -> bool {
                    if *k == 0 {
                        *v = with.clone();
                        return true;
                    }
                    *k -= 1;
                    match v {
                        Value::Array(a) => a.iter_mut().any(|x| replace(x, k, with)),
                        Value::Object(m) => m.values_mut().any(|x| replace(x, k, with)),
                        _ => false,
                    }
                }
                let repl = [json!(null), json!(true), json!(0), json!(-1), json!(1e308), json!(1.5), json!(""), json!("x"), json!([]), json!({}),
                            json!([[]]), json!({"a": {"b": []}}), json!(18446744073709551615u64), json!(-9223372036854775808i64), json!("\u{0}"),
                            json!("99999999999999999999999999"), json!([1, "two", null])];
                let mut k = rng.gen_range(0..count(&v));
                replace(&mut v, &mut k, repl.choose(rng).unwrap());
                serde_json::to_vec(&v).unwrap()
            }
        }
        "unicode" => {
            // characters whose case mapping changes their UTF-8 length, characters IDNA maps to a dot or to nothing,
            // combining marks, bidi controls, NUL - spliced into the text at a random character boundary, several times
            const SPECIAL: &[&str] = &["\u{212A}", "\u{0130}", "\u{1E9E}", "\u{00DF}", "\u{FB00}", "\u{0149}", "\u{3002}", "\u{FF0E}", "\u{FF61}",
                                        "\u{00AD}", "\u{200D}", "\u{0301}", "\u{202E}", "\u{0}", "\u{10FFFF}", "\u{FFFD}", "\u{1F600}", "\u{0131}", "\u{03A3}",
                                        "\u{1F88}", "\u{2126}", "A", "Z"];
            let mut t = String::from_utf8_lossy(&b).into_owned();
            for _ in 0..rng.gen_range(1..4) {
                let cuts: Vec<usize> = t.char_indices().map(|(i, _)| i).chain(std::iter::once(t.len())).collect();
                let at = *cuts.choose(rng).unwrap();
                t.insert_str(at, SPECIAL.choose(rng).unwrap());
            }
            if rng.gen_bool(0.3) {
                t = t.to_uppercase();
            }
            t.into_bytes()
        }
        "setlen" => {
            // a fixed-size input given with another length (content repeated / cut)
            let n: usize = arg.parse().unwrap();
            if b.is_empty() { vec![0x42; n] } else { b.iter().cycle().take(n).copied().collect() }
        }
        "manyentries" => b,     // grown in the child (expand_many), the inputs file carries the valid encoding only
        "bigseq" => {
            // arg = "<present>:<declared>": a byte string or list member re-encoded as a definite-length array that
            // declares <declared> elements and really carries <present> well-formed ones (enough to run past any cap on
            // the initial capacity), then ends
            let (present, decl) = arg.split_once(':').unwrap();
            let present: usize = present.parse().unwrap();
            let hs: Vec<_> = cbor_headers(&b).into_iter().filter(|h| matches!(h.1, 2 | 4) && h.0 > 0).collect();
            if let Some(&(off, major, hl, actual)) = hs.choose(rng) {
                let d = declared(decl, actual);
                let mut v = b[..off].to_vec();
                v.push((4 << 5) | 27);
                v.extend_from_slice(&d.to_be_bytes());
                if major == 2 || actual == 0 {
                    v.extend((0..present).map(|i| (i % 24) as u8));
                } else {
                    // repeat the list's own first element
                    let mut scratch = vec![];
                    let end = cbor_item_end(&b, off + hl, &mut scratch).unwrap_or(b.len()).min(b.len());
                    let first = b[off + hl..end].to_vec();
                    // keep the input within a few hundred kB, but always past 4 096 elements when asked to
                    let present = present.min((300_000 / first.len().max(1)).max(4100));
                    for _ in 0..present {
                        v.extend_from_slice(&first);
                    }
                }
                return v;
            }
            b
        }
        // ---- hid packet sequences
        "shortpacket" => {
            // every packet cut to a random length 0..12
            let mut v = vec![];
            for p in split_packets(&b) {
                let n = rng.gen_range(0..13.min(p.len() + 1));
                v.extend_from_slice(&(n as u16).to_be_bytes());
                v.extend_from_slice(&p[..n]);
            }
            v
        }
        "longpacket" => {
            let mut v = vec![];
            for p in split_packets(&b) {
                let mut q = p.clone();
                q.extend((0..rng.gen_range(1..200)).map(|_| rng.gen::<u8>()));
                v.extend_from_slice(&(q.len() as u16).to_be_bytes());
                v.extend_from_slice(&q);
            }
            v
        }
        "reorder" => {
            let mut ps = split_packets(&b);
            ps.shuffle(rng);
            ps.iter().flat_map(|p| [(p.len() as u16).to_be_bytes().to_vec(), p.clone()].concat()).collect()
        }
        "seqrun" => {
            // an initialisation packet declaring 65535 bytes followed by 300 consecutive continuation packets
            let mut v = vec![];
            let mut init = vec![1u8, 2, 3, 4, 0x90, 0xff, 0xff];
            init.extend(std::iter::repeat(0xaa).take(57));
            v.extend_from_slice(&(64u16).to_be_bytes());
            v.extend_from_slice(&init);
            for seq in 0..300u32 {
                let mut c = vec![1u8, 2, 3, 4, (seq % 128) as u8 | if seq >= 128 { 0 } else { 0 }];
                c[4] = (seq & 0x7f) as u8;
                if seq >= 128 {
                    c[4] = (seq & 0xff) as u8 & 0x7f;
                }
                c.extend(std::iter::repeat(0xbb).take(59));
                v.extend_from_slice(&(64u16).to_be_bytes());
                v.extend_from_slice(&c);
            }
            v
        }
        _ => {
            // orphan continuation packets only
            let mut v = vec![];
            for seq in 0..5u8 {
                let mut c = vec![9u8, 9, 9, 9, seq];
                c.extend(std::iter::repeat(1).take(rng.gen_range(0..70)));
                v.extend_from_slice(&(c.len() as u16).to_be_bytes());
                v.extend_from_slice(&c);
            }
            v
        }
    }
}

fn split_packets(framed: &[u8]) -> Vec<Vec<u8>> {
    let mut out = vec![];
    let mut p = 0;
    while p + 2 <= framed.len() {
        let n = usize::from(u16::from_be_bytes([framed[p], framed[p + 1]]));
        let end = (p + 2 + n).min(framed.len());
        out.push(framed[p + 2..end].to_vec());
        p = end;
    }
    out
}

// ------------------------------------------------------------------------------------------ the decoders
/// true = a value, false = an error
fn decode(dec: &str, b: &[u8]) -> bool {
    match dec {
        "mcReq" => ciborium::de::from_reader::<make_credential::Request, _>(b).is_ok(),
        "mcResp" => ciborium::de::from_reader::<make_credential::Response, _>(b).is_ok(),
        "gaReq" => ciborium::de::from_reader::<get_assertion::Request, _>(b).is_ok(),
        "gaResp" => ciborium::de::from_reader::<get_assertion::Response, _>(b).is_ok(),
        "info" => ciborium::de::from_reader::<get_info::Response, _>(b).is_ok(),
        "hmac" => match ciborium::de::from_reader::<HmacGetSecretInput, _>(b) {
            Ok(v) => {
                // what the authenticator does next with the member: the salts (32 or 64 bytes) out of saltEnc
                let _ = passkey_types::ctap2::extensions::HmacSecretSaltOrOutput::try_from(&v.salt_enc[..]);
                true
            }
            Err(_) => false,
        },
        "cose" => {
            use coset::CborSerializable;
            match coset::CoseKey::from_slice(b) {
                Ok(k) => passkey_authenticator::public_key_der_from_cose_key(&k).is_ok(),
                Err(_) => false,
            }
        }
        "bytesCbor" => ciborium::de::from_reader::<Bytes, _>(b).is_ok(),
        "authdata" => AuthenticatorData::from_slice(b).is_ok(),
        "jsonCreate" => serde_json::from_slice::<CredentialCreationOptions>(b).is_ok(),
        "jsonGet" => serde_json::from_slice::<CredentialRequestOptions>(b).is_ok(),
        "jsonCreated" => serde_json::from_slice::<CreatedPublicKeyCredential>(b).is_ok(),
        "jsonAssertion" => serde_json::from_slice::<AuthenticatedPublicKeyCredential>(b).is_ok(),
        "clientData" => serde_json::from_slice::<CollectedClientData<Value>>(b).is_ok(),
        "bytesJson" => serde_json::from_slice::<std::collections::HashMap<String, Bytes>>(b).is_ok(),
        "bytesStr" => Bytes::try_from(String::from_utf8_lossy(b).as_ref()).is_ok(),
        "u2fRequest" => passkey_types::u2f::Request::try_from(b).is_ok(),
        "u2fRegister" => passkey_types::u2f::RegisterRequest::try_from(b).is_ok(),
        "u2fAuth" => {
            let p1 = *b.first().unwrap_or(&3);
            passkey_types::u2f::AuthenticationRequest::try_from(b, if [3u8, 7, 8].contains(&p1) { p1 } else { 3 }).is_ok()
        }
        "hid" => {
            let mut h = passkey_transports::hid::ChannelHandler::default();
            let mut any = false;
            for p in split_packets(b) {
                any |= h.handle_packet(&p).is_some();
            }
            any
        }
        "salts" => passkey_types::ctap2::extensions::HmacSecretSaltOrOutput::try_from(b).is_ok(),
        "fingerprint" => passkey_client::valid_fingerprint(String::from_utf8_lossy(b).as_ref()).is_ok(),
        "psl" => {
            use public_suffix::EffectiveTLDProvider;
            let s = String::from_utf8_lossy(b);
            let _ = public_suffix::DEFAULT_PROVIDER.public_suffix(&s);
            let _ = public_suffix::DEFAULT_PROVIDER.is_effective_tld(&s);
            public_suffix::DEFAULT_PROVIDER.effective_tld_plus_one(&s).is_ok()
        }
        _ => {
            let s = String::from_utf8_lossy(b);
            let v = passkey_client::RpIdVerifier::new(public_suffix::DEFAULT_PROVIDER);
            let ok = v.is_valid_rp_id(&s);
            if let Ok(u) = url::Url::parse(&format!("https://{s}")) {
                let o = passkey_client::Origin::Web(std::borrow::Cow::Owned(u));
                let _ = v.assert_domain(&o, Some(&s));
                let _ = v.assert_domain(&o, None);
            }
            ok
        }
    }
}

/// `manyentries`: the valid encoding with one of its lists grown to `n` pairwise different entries (descriptors get
/// distinct ids, enumeration lists distinct strings).  Expanded in the child so that the inputs file stays small.
fn expand_many(dec: &str, base: &[u8], what: &str, n: usize) -> Vec<u8> {
    let jsonish = dec.starts_with("json") || dec == "clientData" || dec == "bytesJson";
    if jsonish {
        fn grow(v: &mut Value, what: &str, n: usize, done: &mut bool) {
            if *done {
                return;
            }
            match v {
                Value::Array(a) if !a.is_empty() => {
                    let is_desc = a[0].as_object().map(|m| m.contains_key("id") || m.contains_key("alg")).unwrap_or(false);
                    let is_enum = a[0].is_string();
                    if (what == "desc" && is_desc) || (what == "enum" && is_enum) {
                        let first = a[0].clone();
                        a.clear();
                        for i in 0..n {
                            let mut e = first.clone();
                            if let Some(m) = e.as_object_mut() {
                                if m.contains_key("id") {
                                    m.insert("id".into(), json!(crate::rp::b64url(&(i as u64).to_be_bytes())));
                                }
                                if m.contains_key("alg") {
                                    m.insert("alg".into(), json!(-(i as i64) - 1));
                                }
                            } else {
                                e = json!(format!("value-{i}"));
                            }
                            a.push(e);
                        }
                        *done = true;
                    } else {
                        a.iter_mut().for_each(|x| grow(x, what, n, done));
                    }
                }
                Value::Object(m) => m.values_mut().for_each(|x| grow(x, what, n, done)),
                _ => {}
            }
        }
        let Ok(mut v) = serde_json::from_slice::<Value>(base) else { return base.to_vec() };
        let mut done = false;
        grow(&mut v, what, n, &mut done);
        serde_json::to_vec(&v).unwrap()
    } else {
        use ciborium::value::Value as C;
        fn grow(v: &mut C, what: &str, n: usize, done: &mut bool) {
            if *done {
                return;
            }
            match v {
                C::Array(a) if !a.is_empty() => {
                    let is_desc = a[0].as_map().map(|m| m.iter().any(|(k, _)| k.as_text() == Some("id") || k.as_text() == Some("alg"))).unwrap_or(false);
                    let is_enum = a[0].is_text() || a[0].is_integer();
                    if (what == "desc" && is_desc) || (what == "enum" && is_enum) {
                        let first = a[0].clone();
                        a.clear();
                        for i in 0..n {
                            let mut e = first.clone();
                            if let C::Map(m) = &mut e {
                                for (k, x) in m.iter_mut() {
                                    if k.as_text() == Some("id") {
                                        *x = C::Bytes((i as u64).to_be_bytes().to_vec());
                                    }
                                    if k.as_text() == Some("alg") {
                                        *x = C::Integer((-(i as i64) - 1).into());
                                    }
                                }
                            } else if e.is_text() {
                                e = C::Text(format!("value-{i}"));
                            } else {
                                e = C::Integer((i as i64).into());
                            }
                            a.push(e);
                        }
                        *done = true;
                    } else {
                        a.iter_mut().for_each(|x| grow(x, what, n, done));
                    }
                }
                C::Map(m) => m.iter_mut().for_each(|(_, x)| grow(x, what, n, done)),
                _ => {}
            }
        }
        let Ok(mut v) = ciborium::de::from_reader::<C, _>(base) else { return base.to_vec() };
        let mut done = false;
        grow(&mut v, what, n, &mut done);
        let mut out = vec![];
        ciborium::ser::into_writer(&v, &mut out).unwrap();
        out
    }
}

// ------------------------------------------------------------------------------------------ subcommands
fn gen(args: &Args) {
    let cases: Vec<Value> = serde_json::from_str(&std::fs::read_to_string(args.req("cases")).expect("cases")).expect("json");
    let mut rng = util::rng(args.seed());
    let reps = args.num("reps", 5);
    let mut out = Sink::create(args.req("out"));
    let mut id = 0u64;
    for c in &cases {
        let (dec, m, arg) = (c["dec"].as_str().unwrap(), c["mut"].as_str().unwrap(), c["arg"].as_str().unwrap());
        // the large inputs of the bigseq family are concretised fewer times
        let reps = if m == "bigseq" { (reps / 8).max(3) } else if m == "manyentries" { 2 } else { reps };
        for _ in 0..reps {
            let base = valid(dec, &mut rng);
            let input = mutate(dec, m, arg, &base, &mut rng);
            out.emit(json!({"id": id, "dec": dec, "mut": m, "arg": arg, "input": hexs(&input)}));
            id += 1;
        }
    }
    let n = out.finish();
    println!("{}", json!({"inputs": n, "cases": cases.len()}));
}

fn set_limits(as_mb: u64) {
    // SAFETY: plain libc calls with valid arguments
    unsafe {
        let lim = libc::rlimit { rlim_cur: as_mb << 20, rlim_max: as_mb << 20 };
        libc::setrlimit(libc::RLIMIT_AS, &lim);
        let core = libc::rlimit { rlim_cur: 0, rlim_max: 0 };
        libc::setrlimit(libc::RLIMIT_CORE, &core);
    }
}

fn run_child(args: &Args) {
    let inputs = util::read_ndjson(args.req("in"));
    let from = args.num("from", 0) as usize;
    set_limits(args.num("as-mb", 3072));
    let mut out = std::fs::OpenOptions::new().create(true).append(true).open(args.req("out")).expect("child out");
    for c in inputs.iter().skip(from) {
        let dec = c["dec"].as_str().unwrap();
        let mut input = unhex(c["input"].as_str().unwrap());
        if c["mut"] == "manyentries" {
            let (what, n) = c["arg"].as_str().unwrap().split_once(':').unwrap();
            input = expand_many(dec, &input, what, n.parse().unwrap());
        }
        writeln!(out, "{}", json!({"begin": c["id"]})).unwrap();
        out.flush().unwrap();
        // SAFETY: alarm has no memory-safety preconditions
        unsafe { libc::alarm(args.num("alarm", 6) as u32) };
        crate::alloc::reset();
        let t = cpu_ms();
        let r = util::catch(|| decode(dec, &input));
        let ms = cpu_ms() - t;
        let (max_single, peak) = crate::alloc::read();
        // SAFETY: as above
        unsafe { libc::alarm(0) };
        let outcome = match r {
            Ok(true) => "value",
            Ok(false) => "error",
            Err(_) => "crash",
        };
        writeln!(out, "{}", json!({"id": c["id"], "dec": dec, "mut": c["mut"], "arg": c["arg"], "len": input.len(), "outcome": outcome,
                                    "what": r.err().unwrap_or_default().chars().take(100).collect::<String>(),
                                    "maxalloc": max_single, "peak": peak, "cpums": ms})).unwrap();
        out.flush().unwrap();
    }
}

fn cpu_ms() -> u64 {
    let mut ts = libc::timespec { tv_sec: 0, tv_nsec: 0 };
    // SAFETY: ts is a valid out pointer
    unsafe { libc::clock_gettime(libc::CLOCK_PROCESS_CPUTIME_ID, &mut ts) };
    ts.tv_sec as u64 * 1000 + ts.tv_nsec as u64 / 1_000_000
}

fn run_parent(args: &Args) {
    let inputs = util::read_ndjson(args.req("in"));
    let exe = std::env::current_exe().unwrap();
    let out_path = args.req("out").to_string();
    let tmp = format!("{out_path}.child");
    let mut out = Sink::create(&out_path);
    let mut k = 0usize;
    let mut deaths = 0u64;
    while k < inputs.len() {
        let _ = std::fs::remove_file(&tmp);
        let status = std::process::Command::new(&exe)
            .args(["dec", "run", "--child", "1", "--in", args.req("in"), "--out", &tmp, "--from", &k.to_string()])
            .stdout(std::process::Stdio::null())
            .stderr(std::process::Stdio::null())
            .status()
            .expect("spawn");
        let lines: Vec<Value> = std::fs::read_to_string(&tmp).unwrap_or_default().lines().filter_map(|l| serde_json::from_str(l).ok()).collect();
        let mut done = 0usize;
        let mut begun: Option<u64> = None;
        for l in &lines {
            if l.get("begin").is_some() {
                begun = l["begin"].as_u64();
            } else {
                out.emit(l.clone());
                done += 1;
                begun = None;
            }
        }
        if status.success() {
            break;
        }
        deaths += 1;
        k += done;
        if let Some(id) = begun {
            let c = &inputs[k];
            debug_assert_eq!(c["id"].as_u64(), Some(id));
            use std::os::unix::process::ExitStatusExt;
            let sig = status.signal().unwrap_or(0);
            let outcome = if sig == libc::SIGALRM { "timeout" } else { "crash" };
            out.emit(json!({"id": c["id"], "dec": c["dec"], "mut": c["mut"], "arg": c["arg"], "len": c["input"].as_str().unwrap().len() / 2,
                            "outcome": outcome, "what": format!("process died: {status}"), "maxalloc": 0, "peak": 0, "cpums": 0}));
            k += 1;
        } else if done == 0 {
            // died before starting anything: skip one input to guarantee progress
            k += 1;
        }
    }
    let _ = std::fs::remove_file(&tmp);
    let n = out.finish();
    println!("{}", json!({"inputs": inputs.len(), "events": n, "child_deaths": deaths}));
}

pub fn main(args: &Args) {
    util::quiet_panics();
    match args.pos.first().map(|s| s.as_str()) {
        Some("gen") => gen(args),
        Some("run") if args.get("child").is_some() => run_child(args),
        Some("run") => run_parent(args),
        Some("one") => {
            let b = unhex(args.req("input"));
            crate::alloc::reset();
            let r = util::catch(|| decode(args.req("dec"), &b));
            println!("{}", json!({"outcome": format!("{r:?}"), "alloc": format!("{:?}", crate::alloc::read())}));
        }
        _ => {
            eprintln!("usage: pkverif dec gen --cases F --out F | run --in F --out F");
            std::process::exit(2)
        }
    }
}
