//! C17 (encodings): U2F raw message formats observed through the public encode / try_from functions.
use crate::util::{self, Args, Sink};
use passkey_types::ctap2::Flags;
use passkey_types::u2f::{AuthenticationResponse, PublicKey, RegisterResponse, Request, RequestPayload, Version};
use rand::{Rng, RngCore};
use serde_json::{json, Value};

fn rnd(rng: &mut impl RngCore, n: usize) -> Vec<u8> {
    let mut v = vec![0u8; n];
    rng.fill_bytes(&mut v);
    v
}

fn all_uniform(mut e: Value) -> Value {
    // every event carries every field (TLC wants one record shape)
    let defaults = json!({"kind": "", "hl": 0, "cl": 0, "sl": 0, "total": 0, "reserved": 0, "pk0": 0, "xeq": false, "yeq": false,
        "hlenbyte": 0, "heq": false, "ceq": false, "seq": false, "sw": 0, "presenceeq": false, "ctrbe": false, "texteq": false,
        "ins": 0, "p1": 0, "le": "none", "res": "none", "insok": false, "p1ok": false, "lenok": false, "chalok": false,
        "appok": false, "handleok": false, "paramok": false});
    for (k, v) in defaults.as_object().unwrap() {
        if e.get(k).is_none() {
            e[k] = v.clone();
        }
    }
    e
}

pub fn main(args: &Args) {
    util::quiet_panics();
    let mut rng = util::rng(args.seed());
    let mut out = Sink::create(args.req("out"));
    let n = args.num("n", 300);
    // response encodings
    for i in 0..n {
        let hl = *[0usize, 1, 16, 32, 64, 255].get(i as usize % 6).unwrap();
        let cl = *[0usize, 1, 300, 1200].get((i as usize / 6) % 4).unwrap();
        let sl = rng.gen_range(64..=72);
        let (x, y) = (rnd(&mut rng, 32), rnd(&mut rng, 32));
        let (h, c, s) = (rnd(&mut rng, hl), rnd(&mut rng, cl), rnd(&mut rng, sl));
        let r = RegisterResponse {
            public_key: PublicKey { x: x.clone().try_into().unwrap(), y: y.clone().try_into().unwrap() },
            key_handle: h.clone(),
            attestation_certificate: c.clone(),
            signature: s.clone(),
        };
        let b = r.encode();
        let ok_len = b.len() == 1 + 65 + 1 + hl + cl + sl + 2;
        let at = |a: usize, n: usize| -> &[u8] { if a + n <= b.len() { &b[a..a + n] } else { &[] } };
        out.emit(all_uniform(json!({"kind": "regresp", "hl": hl, "cl": cl, "sl": sl, "total": b.len(),
            "reserved": b.first().copied().unwrap_or(0), "pk0": b.get(1).copied().unwrap_or(0),
            "xeq": at(2, 32) == &x[..], "yeq": at(34, 32) == &y[..], "hlenbyte": b.get(66).copied().unwrap_or(0),
            "heq": ok_len && at(67, hl) == &h[..], "ceq": ok_len && at(67 + hl, cl) == &c[..], "seq": ok_len && at(67 + hl + cl, sl) == &s[..],
            "sw": if b.len() >= 2 { (u32::from(b[b.len() - 2]) << 8) | u32::from(b[b.len() - 1]) } else { 0 }})));
        // authentication response
        let counter: u32 = *[0u32, 1, 0x7fff_ffff, 0x8000_0000, 0xffff_ffff, rng.gen()].get(i as usize % 6).unwrap();
        let flags = *[Flags::empty(), Flags::UP, Flags::UP | Flags::UV].get(i as usize % 3).unwrap();
        let a = AuthenticationResponse { user_presence: flags, counter, signature: s.clone() };
        let b = a.encode();
        out.emit(all_uniform(json!({"kind": "authresp", "sl": sl, "total": b.len(),
            "presenceeq": b.first().copied() == Some(u8::from(flags)),
            "ctrbe": b.len() >= 5 && b[1..5] == counter.to_be_bytes(),
            "seq": b.len() == 7 + sl && b[5..5 + sl] == s[..],
            "sw": if b.len() >= 2 { (u32::from(b[b.len() - 2]) << 8) | u32::from(b[b.len() - 1]) } else { 0 }})));
    }
    let b = Version.encode();
    out.emit(all_uniform(json!({"kind": "version", "total": b.len(), "texteq": b.len() >= 6 && &b[..6] == b"U2F_V2",
        "sw": if b.len() >= 2 { (u32::from(b[b.len() - 2]) << 8) | u32::from(b[b.len() - 1]) } else { 0 }})));
    // well-formed request frames enumerated by TLC
    let cases: Vec<Value> = serde_json::from_str(&std::fs::read_to_string(args.req("cases")).expect("cases")).expect("json");
    let mut frames = 0;
    for _rep in 0..args.num("reps", 5) {
        for c in &cases {
            let ins = c["ins"].as_u64().unwrap() as u8;
            let p1 = c["p1"].as_u64().unwrap() as u8;
            let hl = c["hl"].as_u64().unwrap() as usize;
            let chal = rnd(&mut rng, 32);
            let app = rnd(&mut rng, 32);
            let handle = rnd(&mut rng, hl);
            let data: Vec<u8> = match ins {
                1 => [chal.clone(), app.clone()].concat(),
                2 => [chal.clone(), app.clone(), vec![hl as u8], handle.clone()].concat(),
                _ => vec![],
            };
            let mut f = vec![0u8, ins, p1, 0];
            if ins == 3 {
                f.extend_from_slice(&[0, 0, 0]);
            } else {
                f.push(0);
                f.extend_from_slice(&(data.len() as u16).to_be_bytes());
                f.extend_from_slice(&data);
                match c["le"].as_str().unwrap() {
                    "zero" => f.extend_from_slice(&[0, 0]),
                    "max" => f.extend_from_slice(&[0xff, 0xff]),
                    _ => {}
                }
            }
            let res = util::catch(|| Request::try_from(&f[..]));
            let mut e = json!({"kind": "frame", "ins": ins, "p1": p1, "hl": hl, "le": c["le"], "res": "crash"});
            match res {
                Err(_) => {}
                Ok(Err(sw)) => e["res"] = json!(format!("err:{:04x}", u16::from(sw))),
                Ok(Ok(r)) => {
                    e["res"] = json!("ok");
                    e["insok"] = json!(u8::from(r.ins) == ins && r.cla == 0);
                    e["p1ok"] = json!(r.p1 == p1);
                    e["lenok"] = json!(r.data_len == data.len());
                    let (c_ok, a_ok, h_ok, p_ok) = match r.data {
                        RequestPayload::Register(rr) => (ins == 1 && rr.challenge[..] == chal[..], rr.application[..] == app[..], true, true),
                        RequestPayload::Authenticate(ar) => (ins == 2 && ar.challenge[..] == chal[..], ar.application[..] == app[..],
                            ar.key_handle == handle, u8::from(ar.parameter) == p1),
                        RequestPayload::Version => (ins == 3, true, true, true),
                    };
                    e["chalok"] = json!(c_ok);
                    e["appok"] = json!(a_ok);
                    e["handleok"] = json!(h_ok);
                    e["paramok"] = json!(p_ok);
                }
            }
            out.emit(all_uniform(e));
            frames += 1;
        }
    }
    let total = out.finish();
    println!("{}", json!({"events": total, "frames": frames, "responses": n * 2 + 1}));
}
