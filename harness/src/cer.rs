//! Ceremony conformance core: an instrumented credential store and user-validation method that see
//! every step of a ceremony (no hook in /repo is needed: every suspension point of the ceremony code is a call
//! on one of these two public traits), a hand-rolled executor that can drop a ceremony at any gate, the
//! abstract <-> concrete dictionary, and the projection of concrete passkeys to the abstract records of
//! spec/Ceremony.tla.
use async_trait::async_trait;
use coset::{iana, CoseKeyBuilder};
use p256::ecdsa::SigningKey;
use p256::SecretKey;
use passkey_authenticator::{
    CredentialStore, DiscoverabilitySupport, MemoryStore, StoreInfo, UserCheck, UserValidationMethod,
};
use passkey_types::ctap2::make_credential::{PublicKeyCredentialRpEntity, PublicKeyCredentialUserEntity};
use passkey_types::ctap2::{get_assertion::Options, Ctap2Error, StatusCode};
use passkey_types::webauthn::PublicKeyCredentialDescriptor;
use passkey_types::{CredentialExtensions, Passkey, StoredHmacSecret};
use rand::RngCore;
use serde_json::{json, Value};
use std::collections::HashMap;
use std::future::Future;
use std::pin::Pin;
use std::sync::{Arc, Mutex};
use std::task::{Context, Poll, RawWaker, RawWakerVTable, Waker};

// ---------------------------------------------------------------------------------------------
// dictionary

/// Abstract names for concrete byte strings (credential ids, user handles, salts, challenges).
#[derive(Default)]
pub struct Dict {
    pub cred: Vec<(String, Vec<u8>)>,
    pub user: Vec<(String, Vec<u8>)>,
    pub rp: Vec<(String, String)>,
    pub new_count: usize,
    /// public keys (SEC1 uncompressed) the relying-party role knows: abstract credential -> key
    pub pubkeys: Vec<(String, Vec<u8>)>,
}

impl Dict {
    pub fn cred_name(&self, id: &[u8]) -> String {
        self.cred
            .iter()
            .find(|(_, b)| b == id)
            .map(|(n, _)| n.clone())
            .unwrap_or_else(|| format!("?{}", hex(&id[..id.len().min(4)])))
    }
    /// Name of a credential id, assigning the next "nK" name when it has not been seen (a created credential).
    pub fn cred_name_or_new(&mut self, id: &[u8]) -> String {
        if let Some((n, _)) = self.cred.iter().find(|(_, b)| b == id) {
            return n.clone();
        }
        self.new_count += 1;
        let n = format!("n{}", self.new_count);
        self.cred.push((n.clone(), id.to_vec()));
        n
    }
    pub fn cred_bytes(&mut self, name: &str, rng: &mut impl RngCore) -> Vec<u8> {
        if let Some((_, b)) = self.cred.iter().find(|(n, _)| n == name) {
            return b.clone();
        }
        // ids that are different byte strings but "near" another one: "<base>:pre" its first half, "<base>:ext" the
        // id with four bytes appended, "<base>:flip" the id with its last bit flipped, "id:empty" the empty id
        let mut b = if name == "id:empty" {
            vec![]
        } else if let Some((base, kind)) = name.split_once(':') {
            let mut v = self.cred_bytes(base, rng);
            match kind {
                "pre" => v.truncate(v.len() / 2),
                "ext" => v.extend_from_slice(&[0xa5, 0x5a, 0x00, 0xff]),
                _ => {
                    if let Some(l) = v.last_mut() {
                        *l ^= 1;
                    }
                }
            }
            v
        } else {
            let mut b = vec![0u8; 16];
            rng.fill_bytes(&mut b);
            b
        };
        if name.is_empty() {
            b.clear();
        }
        self.cred.push((name.to_string(), b.clone()));
        b
    }
    pub fn user_name(&self, h: &[u8]) -> String {
        self.user.iter().find(|(_, b)| b == h).map(|(n, _)| n.clone()).unwrap_or_else(|| "?user".to_string())
    }
    pub fn user_bytes(&mut self, name: &str, rng: &mut impl RngCore) -> Vec<u8> {
        if let Some((_, b)) = self.user.iter().find(|(n, _)| n == name) {
            return b.clone();
        }
        // "u0": the empty user handle; "u64": the longest one (64 bytes)
        let mut b = vec![0u8; match name { "u0" => 0, "u64" => 64, _ => 12 }];
        rng.fill_bytes(&mut b);
        self.user.push((name.to_string(), b.clone()));
        b
    }
    pub fn rp_string(&mut self, name: &str) -> String {
        if let Some((_, s)) = self.rp.iter().find(|(n, _)| n == name) {
            return s.clone();
        }
        let s = match name {
            "r1" => "example.com".to_string(),
            "r2" => "login.other-site.org".to_string(),
            "r3" => "xn--bcher-kva.example".to_string(),
            // relying parties the client has special cases for (passkey-client/src/quirks.rs)
            "rq1" => "adobe.com".to_string(),
            "rq2" => "hyatt.com".to_string(),
            // relying-party ids that are different strings but "near" r1: an exact comparison tells them apart
            "r1case" => "EXAMPLE.com".to_string(),
            "r1sub" => "login.example.com".to_string(),
            "r1dot" => "example.com.".to_string(),
            "r1sfx" => "ample.com".to_string(),
            other => format!("{other}.example.net"),
        };
        self.rp.push((name.to_string(), s.clone()));
        s
    }
    pub fn rp_name(&self, s: &str) -> String {
        self.rp.iter().find(|(_, v)| v == s).map(|(n, _)| n.clone()).unwrap_or_else(|| format!("?{s}"))
    }
}

pub fn hex(b: &[u8]) -> String {
    b.iter().map(|x| format!("{x:02x}")).collect()
}

// ---------------------------------------------------------------------------------------------
// shared state between the harness, the traced store and the traced user validation

pub struct Shared {
    pub log: Vec<Value>,
    pub dict: Dict,
    /// number of gate-able events (Prompt, Store) emitted in the current ceremony
    pub counted: i64,
    pub cancel_at: i64,
    pub cancelled: bool,
    /// status byte to return from the k-th fallible store call (find/save/update) of the ceremony; 0 = none
    /// 0 = no fault; 1..=255 = fail with that status byte; 256 = fail with status byte 0x00
    pub faults: Vec<u16>,
    pub fallible_calls: usize,
    /// concurrent runs: the fault plan and the number of fallible store calls made, per ceremony (`current`)
    pub faults_by_cer: Vec<Vec<u16>>,
    pub calls_by_cer: Vec<usize>,
    /// answer of the user-validation step for the current ceremony
    pub uv_answer: Result<(bool, bool), u8>,
    pub uv_asked: bool,
    /// what the environment reports NOW, when it changed after the authenticator was built (an enrolment into user
    /// verification, a store that changes its discoverability support): (uvCap, upCap, disc)
    pub env_now: Option<(Option<bool>, bool, &'static str)>,
    pub yields: bool,
    /// concurrent mode: the ceremony being polled; events are tagged with it
    pub current: Option<usize>,
    /// concurrent mode: no suspension before a store call's effect (only after it, while the guard is held)
    pub no_before_gate: bool,
    /// the polled ceremony last stopped at a gate (as opposed to waiting for a lock)
    pub at_gate: bool,
    /// ceremonies currently suspended inside a store call (holding the guard of a lock wrapper)
    pub in_call: Vec<usize>,
    pub progress: u64,
}

pub type Sh = Arc<Mutex<Shared>>;

static WRITE_THROUGH: Mutex<Option<std::fs::File>> = Mutex::new(None);

/// In an isolated child every event is appended to the output file the moment it is recorded, so that the parent
/// knows how far the ceremony got if the process dies.
pub fn set_write_through(path: &str) {
    let mut w = WRITE_THROUGH.lock().unwrap();
    if w.is_none() {
        *w = Some(std::fs::OpenOptions::new().create(true).append(true).open(path).expect("open child sink"));
    }
}

impl Shared {
    pub fn record(&mut self, mut v: Value) {
        if let Some(c) = self.current {
            v["cer"] = json!(c + 1);
        }
        self.progress += 1;
        if let Some(f) = WRITE_THROUGH.lock().unwrap().as_mut() {
            use std::io::Write;
            let _ = writeln!(f, "{v}");
            let _ = f.flush();
        }
        self.log.push(v);
    }
}

pub fn new_shared() -> Sh {
    Arc::new(Mutex::new(Shared {
        log: vec![],
        dict: Dict::default(),
        counted: 0,
        cancel_at: -1,
        cancelled: false,
        faults: vec![],
        fallible_calls: 0,
        faults_by_cer: vec![],
        calls_by_cer: vec![],
        uv_answer: Ok((true, true)),
        uv_asked: false,
        env_now: None,
        yields: true,
        current: None,
        no_before_gate: false,
        at_gate: false,
        in_call: vec![],
        progress: 0,
    }))
}

// ---------------------------------------------------------------------------------------------
// gates and executor

struct YieldOnce(bool);
impl Future for YieldOnce {
    type Output = ();
    fn poll(mut self: Pin<&mut Self>, cx: &mut Context<'_>) -> Poll<()> {
        if self.0 {
            Poll::Ready(())
        } else {
            self.0 = true;
            cx.waker().wake_by_ref();
            Poll::Pending
        }
    }
}

struct Forever;
impl Future for Forever {
    type Output = ();
    fn poll(self: Pin<&mut Self>, _cx: &mut Context<'_>) -> Poll<()> {
        Poll::Pending
    }
}

/// A suspension point: the place where the scheduler may drop (cancel) the ceremony or resume it later.
pub async fn gate(sh: &Sh) {
    let (cancel, yields) = {
        let mut s = sh.lock().unwrap();
        let c = s.cancel_at >= 0 && s.counted == s.cancel_at;
        if c {
            s.cancelled = true;
        }
        (c, s.yields)
    };
    if cancel {
        Forever.await
    } else if yields {
        {
            let mut s = sh.lock().unwrap();
            s.at_gate = true;
            s.progress += 1;
        }
        YieldOnce(false).await
    }
}

/// gate at the entry of a store call: skipped in concurrent mode (see `no_before_gate`); marks the call as entered
pub async fn gate_in(sh: &Sh) {
    let skip = {
        let mut s = sh.lock().unwrap();
        if let Some(c) = s.current {
            s.in_call.push(c);
        }
        s.no_before_gate
    };
    if !skip {
        gate(sh).await
    }
}

/// gate at the exit of a store call
pub async fn gate_out(sh: &Sh) {
    gate(sh).await;
    let mut s = sh.lock().unwrap();
    if let Some(c) = s.current {
        s.in_call.retain(|x| *x != c);
    }
}

fn noop_waker() -> Waker {
    fn clone(_: *const ()) -> RawWaker {
        RawWaker::new(std::ptr::null(), &VTABLE)
    }
    fn noop(_: *const ()) {}
    static VTABLE: RawWakerVTable = RawWakerVTable::new(clone, noop, noop, noop);
    // SAFETY: the vtable functions do nothing and never dereference the data pointer
    unsafe { Waker::from_raw(RawWaker::new(std::ptr::null(), &VTABLE)) }
}

pub enum Outcome<T> {
    Done(T),
    Cancelled(u32),
    Hung,
}

/// Poll a ceremony to completion, or drop it when a gate asked for cancellation.
pub fn drive<F: Future>(fut: F, sh: &Sh) -> Outcome<F::Output> {
    let mut fut = Box::pin(fut);
    let waker = noop_waker();
    let mut cx = Context::from_waker(&waker);
    let mut polls = 0u32;
    loop {
        polls += 1;
        match fut.as_mut().poll(&mut cx) {
            Poll::Ready(v) => return Outcome::Done(v),
            Poll::Pending => {
                if sh.lock().unwrap().cancelled {
                    drop(fut);
                    return Outcome::Cancelled(polls);
                }
                if polls > 100_000 {
                    return Outcome::Hung;
                }
            }
        }
    }
}

// ---------------------------------------------------------------------------------------------
// abstract projection of credentials

pub fn ctr_json(c: Option<u32>) -> Value {
    match c {
        None => json!({"hi": -1, "lo": 0}),
        Some(v) => json!({"hi": v >> 16, "lo": v & 0xffff}),
    }
}

pub fn ctr_from(v: &Value) -> Option<u32> {
    let hi = v["hi"].as_i64().unwrap();
    if hi < 0 {
        None
    } else {
        Some(((hi as u32) << 16) | (v["lo"].as_u64().unwrap() as u32))
    }
}

pub fn hm_name(p: &Passkey) -> &'static str {
    match &p.extensions.hmac_secret {
        None => "none",
        Some(s) if s.cred_without_uv.is_some() => "both",
        Some(_) => "uv",
    }
}

pub fn cred_json(d: &Dict, p: &Passkey) -> Value {
    json!({
        "id": d.cred_name(&p.credential_id),
        "rp": d.rp_name(&p.rp_id),
        "user": p.user_handle.as_ref().map(|h| d.user_name(h)).unwrap_or_else(|| "none".to_string()),
        "ctr": ctr_json(p.counter),
        "hm": hm_name(p),
    })
}

pub fn no_opts() -> Value {
    json!({"rk": false, "up": false, "uv": false})
}

pub fn no_cred() -> Value {
    json!({"id": "none", "rp": "none", "user": "none", "ctr": {"hi": -1, "lo": 0}, "hm": "none"})
}

/// Build a concrete passkey (fresh P-256 key) for an abstract credential record of the initial store.
pub fn make_passkey(d: &mut Dict, rec: &Value, rng: &mut impl RngCore) -> Passkey {
    let id = d.cred_bytes(rec["id"].as_str().unwrap(), rng);
    let sk = SecretKey::random(&mut rand::thread_rng());
    let pk = SigningKey::from(&sk).verifying_key().to_encoded_point(false);
    let key = CoseKeyBuilder::new_ec2_priv_key(
        iana::EllipticCurve::P_256,
        pk.x().unwrap().to_vec(),
        pk.y().unwrap().to_vec(),
        sk.to_bytes().to_vec(),
    )
    .algorithm(iana::Algorithm::ES256)
    .build();
    // a stored key need not list its parameters in the order this library writes them (an imported key may carry
    // d before x and y): every second pre-existing credential has them reversed
    let mut key = key;
    if d.cred.len() % 2 == 0 {
        key.params.reverse();
    }
    d.pubkeys.push((rec["id"].as_str().unwrap().to_string(), pk.as_bytes().to_vec()));
    let user = rec["user"].as_str().unwrap();
    let rp = d.rp_string(rec["rp"].as_str().unwrap());
    let mut secret = |n: usize| {
        let mut v = vec![0u8; n];
        rng.fill_bytes(&mut v);
        v
    };
    let hmac_secret = match rec["hm"].as_str().unwrap() {
        "none" => None,
        "uv" => Some(StoredHmacSecret { cred_with_uv: secret(32), cred_without_uv: None }),
        _ => Some(StoredHmacSecret { cred_with_uv: secret(32), cred_without_uv: Some(secret(32)) }),
    };
    Passkey {
        key,
        credential_id: id.into(),
        rp_id: rp,
        user_handle: if user == "none" { None } else { Some(d.user_bytes(user, rng).into()) },
        counter: ctr_from(&rec["ctr"]),
        extensions: CredentialExtensions { hmac_secret },
    }
}

// ---------------------------------------------------------------------------------------------
// the traced store

/// The reference store: the documented contract (match by id list and RP ID, listing in insertion order), with a
/// configurable discoverability capability.  Not traced itself: `TStore` traces whatever it wraps.
pub struct RefStore {
    pub v: Vec<Passkey>,
    pub disc: &'static str,
    pub empty_as_err: bool,
    /// the run's shared state: a later change of the environment overrides `disc`
    pub sh: Option<Sh>,
    /// list a relying party's credentials newest first (a new record goes to the front)
    pub newest_first: bool,
}

#[async_trait]
impl CredentialStore for RefStore {
    type PasskeyItem = Passkey;

    async fn find_credentials(&self, ids: Option<&[PublicKeyCredentialDescriptor]>, rp_id: &str) -> Result<Vec<Passkey>, StatusCode> {
        let r: Vec<Passkey> = self
            .v
            .iter()
            .filter(|p| p.rp_id == rp_id && ids.map(|l| l.iter().any(|d| d.id == p.credential_id)).unwrap_or(true))
            .cloned()
            .collect();
        if r.is_empty() && self.empty_as_err {
            Err(Ctap2Error::NoCredentials.into())
        } else {
            Ok(r)
        }
    }

    async fn save_credential(
        &mut self,
        cred: Passkey,
        _user: PublicKeyCredentialUserEntity,
        _rp: PublicKeyCredentialRpEntity,
        _options: Options,
    ) -> Result<(), StatusCode> {
        self.update_credential(cred).await
    }

    async fn update_credential(&mut self, cred: Passkey) -> Result<(), StatusCode> {
        if let Some(slot) = self.v.iter_mut().find(|p| p.credential_id == cred.credential_id) {
            *slot = cred;
        } else if self.newest_first {
            self.v.insert(0, cred);
        } else {
            self.v.push(cred);
        }
        Ok(())
    }

    async fn get_info(&self) -> StoreInfo {
        let now = self.sh.as_ref().and_then(|sh| sh.lock().unwrap().env_now.map(|e| e.2));
        StoreInfo { discoverability: disc_of(now.unwrap_or(self.disc)) }
    }
}

pub enum Inner {
    Reference(RefStore),
    Memory(MemoryStore),
    Slot(Option<Passkey>),
    /// the reference store behind each of the shipped lock wrappers (cfg.wrap): the wrappers are to be transparent
    MutexRef(tokio::sync::Mutex<RefStore>),
    RwRef(tokio::sync::RwLock<RefStore>),
    ArcMutexRef(Arc<tokio::sync::Mutex<RefStore>>),
    ArcRwRef(Arc<tokio::sync::RwLock<RefStore>>),
}

macro_rules! with_inner {
    ($inner:expr, $s:ident => $e:expr) => {
        match $inner {
            Inner::Reference($s) => $e,
            Inner::Memory($s) => $e,
            Inner::Slot($s) => $e,
            Inner::MutexRef($s) => $e,
            Inner::RwRef($s) => $e,
            Inner::ArcMutexRef($s) => $e,
            Inner::ArcRwRef($s) => $e,
        }
    };
}

pub struct TStore {
    pub inner: Inner,
    pub disc: &'static str,
    pub empty_as_err: bool,
    pub sh: Sh,
}

impl TStore {
    pub fn contents(&self) -> Vec<Passkey> {
        match &self.inner {
            Inner::Reference(r) => r.v.clone(),
            Inner::Memory(m) => m.values().cloned().collect(),
            Inner::Slot(o) => o.iter().cloned().collect(),
            Inner::MutexRef(m) => m.try_lock().expect("store lock free between calls").v.clone(),
            Inner::RwRef(m) => m.try_read().expect("store lock free between calls").v.clone(),
            Inner::ArcMutexRef(m) => m.try_lock().expect("store lock free between calls").v.clone(),
            Inner::ArcRwRef(m) => m.try_read().expect("store lock free between calls").v.clone(),
        }
    }
    pub fn snapshot(&self, d: &Dict) -> Value {
        let mut v: Vec<Value> = self.contents().iter().map(|p| cred_json(d, p)).collect();
        if matches!(self.inner, Inner::Memory(_) | Inner::Slot(_)) {
            v.sort_by(|a, b| a["id"].as_str().cmp(&b["id"].as_str()));
        }
        Value::Array(v)
    }
    fn fault(&self) -> Option<u8> {
        let mut s = self.sh.lock().unwrap();
        if let (Some(i), false) = (s.current, s.faults_by_cer.is_empty()) {
            let k = s.calls_by_cer[i];
            s.calls_by_cer[i] += 1;
            return s.faults_by_cer[i].get(k).copied().filter(|b| *b != 0).map(|b| (b % 256) as u8);
        }
        let k = s.fallible_calls;
        s.fallible_calls += 1;
        s.faults.get(k).copied().filter(|b| *b != 0).map(|b| (b % 256) as u8)
    }
    fn emit(&self, d: Value) {
        let mut s = self.sh.lock().unwrap();
        s.counted += 1;
        s.record(json!({"ev": "Store", "d": d}));
    }
}

fn disc_of(name: &str) -> DiscoverabilitySupport {
    match name {
        "full" => DiscoverabilitySupport::Full,
        "nondisc" => DiscoverabilitySupport::OnlyNonDiscoverable,
        _ => DiscoverabilitySupport::ForcedDiscoverable,
    }
}

#[async_trait]
impl CredentialStore for TStore {
    type PasskeyItem = Passkey;

    async fn find_credentials(
        &self,
        ids: Option<&[PublicKeyCredentialDescriptor]>,
        rp_id: &str,
    ) -> Result<Vec<Passkey>, StatusCode> {
        gate_in(&self.sh).await;
        let (ids_json, rp_name) = {
            let s = self.sh.lock().unwrap();
            (
                ids.map(|l| l.iter().map(|d| s.dict.cred_name(&d.id)).collect::<Vec<_>>()).unwrap_or_default(),
                s.dict.rp_name(rp_id),
            )
        };
        let fault = self.fault();
        let res: Result<Vec<Passkey>, StatusCode> = if let Some(b) = fault {
            Err(StatusCode::from(b))
        } else {
            with_inner!(&self.inner, st => st.find_credentials(ids, rp_id).await)
        };
        let (res, err) = split(res);
        {
            let s = self.sh.lock().unwrap();
            let found: Vec<String> =
                res.as_ref().map(|v| v.iter().map(|p| s.dict.cred_name(&p.credential_id)).collect()).unwrap_or_default();
            let snap = self.snapshot(&s.dict);
            drop(s);
            self.emit(json!({"call": "find", "idsGiven": ids.is_some(), "ids": ids_json, "rp": rp_name, "cred": no_cred(),
                             "ok": res.is_ok(), "err": err, "found": found, "snap": snap, "faulted": fault.is_some(), "opts": no_opts()}));
        }
        gate_out(&self.sh).await;
        res
    }

    async fn save_credential(
        &mut self,
        cred: Passkey,
        _user: PublicKeyCredentialUserEntity,
        rp: PublicKeyCredentialRpEntity,
        _options: Options,
    ) -> Result<(), StatusCode> {
        gate_in(&self.sh).await;
        let opts = (_options.rk, _options.up, _options.uv);
        let fault = self.fault();
        let rp_name = {
            let mut s = self.sh.lock().unwrap();
            s.dict.cred_name_or_new(&cred.credential_id);
            s.dict.rp_name(&rp.id)
        };
        let res: Result<(), StatusCode> = if let Some(b) = fault {
            Err(StatusCode::from(b))
        } else {
            with_inner!(&mut self.inner, st => st.save_credential(cred.clone(), _user, rp, _options).await)
        };
        let (res, err) = split(res);
        {
            let s = self.sh.lock().unwrap();
            let c = cred_json(&s.dict, &cred);
            let snap = self.snapshot(&s.dict);
            drop(s);
            self.emit(json!({"call": "save", "idsGiven": false, "ids": [], "rp": rp_name, "cred": c,
                             "ok": res.is_ok(), "err": err, "found": [], "snap": snap, "faulted": fault.is_some(),
                             "opts": {"rk": opts.0, "up": opts.1, "uv": opts.2}}));
        }
        gate_out(&self.sh).await;
        res
    }

    async fn update_credential(&mut self, cred: Passkey) -> Result<(), StatusCode> {
        gate_in(&self.sh).await;
        let fault = self.fault();
        let res: Result<(), StatusCode> = if let Some(b) = fault {
            Err(StatusCode::from(b))
        } else {
            with_inner!(&mut self.inner, st => st.update_credential(cred.clone()).await)
        };
        let (res, err) = split(res);
        {
            let s = self.sh.lock().unwrap();
            let c = cred_json(&s.dict, &cred);
            let snap = self.snapshot(&s.dict);
            drop(s);
            self.emit(json!({"call": "update", "idsGiven": false, "ids": [], "rp": c["rp"], "cred": c,
                             "ok": res.is_ok(), "err": err, "found": [], "snap": snap, "faulted": fault.is_some(), "opts": no_opts()}));
        }
        gate_out(&self.sh).await;
        res
    }

    async fn get_info(&self) -> StoreInfo {
        gate_in(&self.sh).await;
        {
            let s = self.sh.lock().unwrap();
            let snap = self.snapshot(&s.dict);
            drop(s);
            self.emit(json!({"call": "info", "idsGiven": false, "ids": [], "rp": "none", "cred": no_cred(),
                             "ok": true, "err": 0, "found": [], "snap": snap, "faulted": false, "opts": no_opts()}));
        }
        gate_out(&self.sh).await;
        with_inner!(&self.inner, st => st.get_info().await)
    }
}

/// StatusCode is neither Clone nor Copy: take it apart into its byte and rebuild it.
pub fn split<T>(r: Result<T, StatusCode>) -> (Result<T, StatusCode>, u8) {
    match r {
        Ok(v) => (Ok(v), 0),
        Err(e) => {
            let b = u8::from(e);
            (Err(StatusCode::from(b)), b)
        }
    }
}

// ---------------------------------------------------------------------------------------------
// the traced user validation

pub struct TUv {
    pub sh: Sh,
    /// None: no built-in verification, Some(false): not configured, Some(true): configured
    pub uv_cap: Option<bool>,
    pub up_cap: bool,
}

#[async_trait]
impl UserValidationMethod for TUv {
    type PasskeyItem = Passkey;

    async fn check_user<'a>(
        &self,
        credential: Option<&'a Passkey>,
        presence: bool,
        verification: bool,
    ) -> Result<UserCheck, Ctap2Error> {
        gate(&self.sh).await;
        let ans = {
            let mut s = self.sh.lock().unwrap();
            let shown = credential.map(|p| s.dict.cred_name(&p.credential_id)).unwrap_or_else(|| "none".to_string());
            // "asked": presence always, verification exactly when this call requires it
            let ans = if s.uv_asked { Ok((true, verification)) } else { s.uv_answer };
            s.counted += 1;
            let (ok, p, v, e) = match ans {
                Ok((p, v)) => (true, p, v, 0),
                Err(b) => (false, false, false, b),
            };
            s.record(json!({"ev": "Prompt", "d": {"shown": shown, "up": presence, "uv": verification,
                                                   "ok": ok, "pres": p, "verif": v, "err": e}}));
            ans
        };
        gate(&self.sh).await;
        match ans {
            Ok((presence, verification)) => Ok(UserCheck { presence, verification }),
            Err(b) => Err(Ctap2Error::try_from(b).unwrap_or(Ctap2Error::OperationDenied)),
        }
    }

    fn is_presence_enabled(&self) -> bool {
        self.sh.lock().unwrap().env_now.map(|e| e.1).unwrap_or(self.up_cap)
    }

    fn is_verification_enabled(&self) -> Option<bool> {
        self.sh.lock().unwrap().env_now.map(|e| e.0).unwrap_or(self.uv_cap)
    }
}

pub fn uv_cap_of(name: &str) -> Option<bool> {
    match name {
        "none" => None,
        "unconfigured" => Some(false),
        _ => Some(true),
    }
}

pub fn new_store(kind: &str, disc: &str, empty_as_err: bool, creds: Vec<Passkey>, sh: &Sh) -> TStore {
    new_store_wrapped(kind, "none", disc, empty_as_err, creds, sh)
}

/// `wrap`: which shipped lock wrapper stands between the traced store and the reference store
/// ("none" | "mutex" | "rwlock" | "arcmutex" | "arcrwlock"; the shipped map and slot stores are used bare)
pub fn new_store_wrapped(kind: &str, wrap: &str, disc: &str, empty_as_err: bool, creds: Vec<Passkey>, sh: &Sh) -> TStore {
    new_store_full(kind, wrap, disc, empty_as_err, false, creds, sh)
}

pub fn new_store_full(kind: &str, wrap: &str, disc: &str, empty_as_err: bool, newest_first: bool, creds: Vec<Passkey>, sh: &Sh) -> TStore {
    let disc: &'static str = match disc {
        "full" => "full",
        "nondisc" => "nondisc",
        _ => "forced",
    };
    let inner = match kind {
        "memory" => Inner::Memory(creds.into_iter().map(|p| (p.credential_id.clone().into(), p)).collect::<HashMap<Vec<u8>, Passkey>>()),
        "slot" => Inner::Slot(creds.into_iter().next()),
        _ => {
            let r = RefStore { v: creds, disc, empty_as_err, sh: Some(sh.clone()), newest_first };
            match wrap {
                "mutex" => Inner::MutexRef(tokio::sync::Mutex::new(r)),
                "rwlock" => Inner::RwRef(tokio::sync::RwLock::new(r)),
                "arcmutex" => Inner::ArcMutexRef(Arc::new(tokio::sync::Mutex::new(r))),
                "arcrwlock" => Inner::ArcRwRef(Arc::new(tokio::sync::RwLock::new(r))),
                _ => Inner::Reference(r),
            }
        }
    };
    TStore { inner, disc, empty_as_err, sh: sh.clone() }
}
