//! C19: several authenticators sharing one credential store through Arc<tokio::Mutex<_>> / Arc<tokio::RwLock<_>>,
//! their ceremonies interleaved by a hand-rolled executor that realises the event orders exported by TLC
//! (Concurrent.tla).  The traced store is the INNER store, so its events are emitted while the guard is held.
use crate::cer::*;
use crate::cerrun::{build_auth_with, Run};
use crate::util::{self, Args, Sink};
use passkey_authenticator::Authenticator;
use passkey_types::ctap2::{get_assertion, make_credential, StatusCode};
use serde_json::{json, Value};
use std::future::Future;
use std::pin::Pin;
use std::sync::Arc;
use std::task::{Context, Poll};
use tokio::sync::{Mutex, RwLock};

enum Out {
    Mc(Result<make_credential::Response, StatusCode>),
    Ga(Result<get_assertion::Response, StatusCode>),
}

struct Proc {
    fut: Option<Pin<Box<dyn Future<Output = Out>>>>,
    op: String,
    cdh: Vec<u8>,
    salts: Vec<(String, [u8; 32])>,
}

fn noop_waker() -> std::task::Waker {
    use std::task::{RawWaker, RawWakerVTable, Waker};
    fn clone(_: *const ()) -> RawWaker {
        RawWaker::new(std::ptr::null(), &VTABLE)
    }
    fn noop(_: *const ()) {}
    static VTABLE: RawWakerVTable = RawWakerVTable::new(clone, noop, noop, noop);
    // SAFETY: the vtable functions do nothing and never dereference the data pointer
    unsafe { Waker::from_raw(RawWaker::new(std::ptr::null(), &VTABLE)) }
}

/// one behaviour: {cfg, store, cers: [{op, req, env}], order: [ceremony index per event], lock}
fn run_one(out: &mut Sink, runno: u64, b: &Value, seed: u64) {
    let mut run = Run::new(seed);
    let sh = run.sh.clone();
    let cfg = &b["cfg"];
    let lock = b["lock"].as_str().unwrap();
    // concrete initial credentials
    let creds: Vec<passkey_types::Passkey> = {
        let mut s = sh.lock().unwrap();
        s.dict.rp_string("r1");
        s.dict.rp_string("r2");
        b["store"].as_array().unwrap().iter().map(|r| make_passkey(&mut s.dict, r, &mut run.rng)).collect()
    };
    run.seen_ids = creds.iter().map(|p| p.credential_id.to_vec()).collect();
    let inner = new_store_full(cfg["storeKind"].as_str().unwrap(), "none", cfg["disc"].as_str().unwrap(), cfg["emptyAsErr"].as_bool().unwrap(),
                               cfg["order"].as_str() == Some("newest"), creds, &sh);
    let snap0 = inner.snapshot(&sh.lock().unwrap().dict);
    let mtx = Arc::new(Mutex::new(inner));
    // the RwLock variant needs its own store instance (the inner store cannot be shared between two wrappers)
    let creds2: Option<Arc<RwLock<TStore>>> = None;
    let _ = creds2;
    out.emit(json!({"ev": "Reset", "run": runno, "cfg": cfg, "store": snap0, "lock": lock}));
    {
        let mut s = sh.lock().unwrap();
        s.no_before_gate = true;
        s.uv_answer = Ok((true, true));
    }
    let cers = b["cers"].as_array().unwrap();
    let mut procs: Vec<Proc> = vec![];
    // the shared store, behind the wrapper under test
    let rw: Option<Arc<RwLock<TStore>>> = if lock == "rwlock" {
        let inner = Arc::try_unwrap(mtx.clone()).ok();
        drop(inner);
        None
    } else {
        None
    };
    let _ = rw;
    // build the shared wrapper once
    enum Shared2 {
        M(Arc<Mutex<TStore>>),
        R(Arc<RwLock<TStore>>),
    }
    let shared = if lock == "rwlock" {
        let inner = match Arc::try_unwrap(mtx) {
            Ok(m) => m.into_inner(),
            Err(_) => unreachable!(),
        };
        Shared2::R(Arc::new(RwLock::new(inner)))
    } else {
        Shared2::M(mtx)
    };
    {
        let mut s = sh.lock().unwrap();
        s.faults_by_cer = cers
            .iter()
            .map(|c| c["env"]["faults"].as_array().map(|a| a.iter().map(|v| v.as_u64().unwrap_or(0) as u16).collect()).unwrap_or_default())
            .collect();
        s.calls_by_cer = vec![0; cers.len()];
    }
    for (i, c) in cers.iter().enumerate() {
        sh.lock().unwrap().current = Some(i);
        out.emit(json!({"ev": "Begin", "cer": i + 1, "d": {"api": "ctap2", "op": c["op"], "req": c["req"], "env": c["env"]}}));
        let op = c["op"].as_str().unwrap().to_string();
        let uv = TUv { sh: sh.clone(), uv_cap: uv_cap_of(cfg["uvCap"].as_str().unwrap()), up_cap: cfg["upCap"].as_bool().unwrap() };
        run.salts.clear();
        let fut: Pin<Box<dyn Future<Output = Out>>> = match (&shared, op.as_str()) {
            (Shared2::M(m), "mc") => {
                let req = run.mc_request(&c["req"]);
                let mut a = build_auth_with(cfg, m.clone(), uv);
                Box::pin(async move { Out::Mc(Authenticator::make_credential(&mut a, req).await) })
            }
            (Shared2::M(m), _) => {
                let req = run.ga_request(&c["req"]);
                let mut a = build_auth_with(cfg, m.clone(), uv);
                Box::pin(async move { Out::Ga(Authenticator::get_assertion(&mut a, req).await) })
            }
            (Shared2::R(m), "mc") => {
                let req = run.mc_request(&c["req"]);
                let mut a = build_auth_with(cfg, m.clone(), uv);
                Box::pin(async move { Out::Mc(Authenticator::make_credential(&mut a, req).await) })
            }
            (Shared2::R(m), _) => {
                let req = run.ga_request(&c["req"]);
                let mut a = build_auth_with(cfg, m.clone(), uv);
                Box::pin(async move { Out::Ga(Authenticator::get_assertion(&mut a, req).await) })
            }
        };
        procs.push(Proc { fut: Some(fut), op, cdh: run.cdh.clone(), salts: run.salts.clone() });
    }
    let waker = noop_waker();
    let mut cx = Context::from_waker(&waker);
    // poll ceremony i once; true if it emitted an event or finished
    let contents = |shared: &Shared2| -> Vec<passkey_types::Passkey> {
        match shared {
            Shared2::M(m) => m.try_lock().map(|g| g.contents()).unwrap_or_default(),
            Shared2::R(m) => m.try_read().map(|g| g.contents()).unwrap_or_default(),
        }
    };
    let mut poll = |i: usize, procs: &mut Vec<Proc>, run: &mut Run, out: &mut Sink| -> bool {
        let Some(f) = procs[i].fut.as_mut() else { return true };
        let before = {
            let mut s = sh.lock().unwrap();
            s.current = Some(i);
            s.at_gate = false;
            s.log.len()
        };
        let r = util::catch(|| f.as_mut().poll(&mut cx));
        let emitted: Vec<Value> = {
            let mut s = sh.lock().unwrap();
            s.log.drain(before..).collect()
        };
        let n = emitted.len();
        for e in emitted {
            out.emit(e);
        }
        match r {
            Err(m) => {
                procs[i].fut = None;
                out.emit(json!({"ev": "Crash", "cer": i + 1, "d": {"what": m}}));
                true
            }
            Ok(Poll::Ready(o)) => {
                procs[i].fut = None;
                run.cdh = procs[i].cdh.clone();
                run.salts = procs[i].salts.clone();
                // the relying-party reading needs the stored credential: read it through the wrapper
                run.extern_contents = Some(contents(&shared));
                let d = match o {
                    Out::Mc(Ok(r)) => run.judge_mc(&r),
                    Out::Ga(Ok(r)) => run.judge_ga(&r),
                    Out::Mc(Err(s)) | Out::Ga(Err(s)) => Run::err_end(u8::from(s)),
                };
                out.emit(json!({"ev": "End", "cer": i + 1, "d": d}));
                true
            }
            Ok(Poll::Pending) => n > 0,
        }
    };
    let order: Vec<usize> = b["order"].as_array().unwrap().iter().map(|v| v.as_u64().unwrap() as usize - 1).collect();
    let mut deadlock = false;
    'outer: for &i in order.iter() {
        let mut idle_rounds = 0;
        while procs[i].fut.is_some() {
            let p0 = sh.lock().unwrap().progress;
            if poll(i, &mut procs, &mut run, out) {
                break;
            }
            if sh.lock().unwrap().at_gate {
                continue;
            }
            // i waits for the lock: first let every ceremony suspended inside a store call finish that call ...
            let holders: Vec<usize> = sh.lock().unwrap().in_call.clone();
            for k in holders {
                if k != i {
                    poll(k, &mut procs, &mut run, out);
                }
            }
            if poll(i, &mut procs, &mut run, out) {
                break;
            }
            if sh.lock().unwrap().at_gate {
                continue;
            }
            // ... then anybody queued ahead of it (the locks are fair)
            for k in 0..procs.len() {
                if k != i {
                    poll(k, &mut procs, &mut run, out);
                }
            }
            // a full round in which nothing happened at all: no event, no gate passed
            if sh.lock().unwrap().progress == p0 {
                idle_rounds += 1;
                if idle_rounds > 3 {
                    deadlock = true;
                    break 'outer;
                }
            } else {
                idle_rounds = 0;
            }
        }
    }
    // anything left runs to completion round-robin
    let mut idle_rounds = 0;
    while !deadlock && procs.iter().any(|p| p.fut.is_some()) {
        let p0 = sh.lock().unwrap().progress;
        for i in 0..procs.len() {
            poll(i, &mut procs, &mut run, out);
        }
        if sh.lock().unwrap().progress == p0 {
            idle_rounds += 1;
            if idle_rounds > 3 {
                deadlock = true;
            }
        } else {
            idle_rounds = 0;
        }
    }
    if deadlock {
        out.emit(json!({"ev": "Deadlock", "cer": 0, "d": {"what": "no progress"}}));
    }
    sh.lock().unwrap().current = None;
    let snap = {
        let c = contents(&shared);
        let s = sh.lock().unwrap();
        let mut v: Vec<Value> = c.iter().map(|p| cred_json(&s.dict, p)).collect();
        if cfg["storeKind"] != "reference" {
            v.sort_by(|a, b| a["id"].as_str().cmp(&b["id"].as_str()));
        }
        v
    };
    out.emit(json!({"ev": "Final", "cer": 0, "d": {"snap": snap}}));
}

pub fn main(args: &Args) {
    util::quiet_panics();
    match args.pos.first().map(|s| s.as_str()) {
        Some("replay") => {
            let beh = util::read_ndjson(args.req("in"));
            let mut out = Sink::create(args.req("out"));
            for (i, b) in beh.iter().enumerate() {
                run_one(&mut out, i as u64, b, args.seed().wrapping_mul(7919).wrapping_add(i as u64));
            }
            let n = out.finish();
            println!("{}", json!({"behaviours": beh.len(), "events": n}));
        }
        _ => {
            eprintln!("usage: pkverif conc replay --in FILE --out FILE");
            std::process::exit(2)
        }
    }
}
