//! C06: search everything handed back to a caller for the secrets read back from the store.
//! Secrets: each credential's private scalar `d` and its PRF secrets.  Encodings: raw bytes, hex (both cases),
//! decimal lists ("1, 2, 3" as Debug prints byte vectors and "1,2,3" as JSON does), base64 and base64url, padded
//! and unpadded.  A 16-byte prefix of the raw / hex form is searched too, so a truncated copy is still noticed.
use passkey_types::Passkey;

fn b64(data: &[u8], url: bool, pad: bool) -> String {
    let a: &[u8; 64] = if url {
        b"ABCDEFGHIJKLMNOPQRSTUVWXYZabcdefghijklmnopqrstuvwxyz0123456789-_"
    } else {
        b"ABCDEFGHIJKLMNOPQRSTUVWXYZabcdefghijklmnopqrstuvwxyz0123456789+/"
    };
    let mut s = String::new();
    for c in data.chunks(3) {
        let n = (u32::from(c[0]) << 16) | (u32::from(*c.get(1).unwrap_or(&0)) << 8) | u32::from(*c.get(2).unwrap_or(&0));
        s.push(a[(n >> 18) as usize & 63] as char);
        s.push(a[(n >> 12) as usize & 63] as char);
        if c.len() > 1 {
            s.push(a[(n >> 6) as usize & 63] as char);
        } else if pad {
            s.push('=');
        }
        if c.len() > 2 {
            s.push(a[n as usize & 63] as char);
        } else if pad {
            s.push('=');
        }
    }
    s
}

pub fn secrets_of(p: &Passkey) -> Vec<(&'static str, Vec<u8>)> {
    let mut v = vec![];
    for (k, val) in &p.key.params {
        if let coset::Label::Int(-4) = k {
            if let Some(b) = val.as_bytes() {
                v.push(("private-key", b.clone()));
            }
        }
    }
    if let Some(h) = &p.extensions.hmac_secret {
        v.push(("prf-secret-uv", h.cred_with_uv.clone()));
        if let Some(n) = &h.cred_without_uv {
            v.push(("prf-secret-nouv", n.clone()));
        }
    }
    v
}

fn needles(secret: &[u8]) -> Vec<(&'static str, Vec<u8>)> {
    let hex = |b: &[u8], up: bool| -> Vec<u8> {
        b.iter().map(|x| if up { format!("{x:02X}") } else { format!("{x:02x}") }).collect::<String>().into_bytes()
    };
    let list = |sep: &str| -> Vec<u8> { secret.iter().map(|x| x.to_string()).collect::<Vec<_>>().join(sep).into_bytes() };
    let mut v = vec![
        ("raw", secret.to_vec()),
        ("hex", hex(secret, false)),
        ("HEX", hex(secret, true)),
        ("decimal-list", list(", ")),
        ("decimal-list-json", list(",")),
        ("base64", b64(secret, false, false).into_bytes()),
        ("base64-padded", b64(secret, false, true).into_bytes()),
        ("base64url", b64(secret, true, false).into_bytes()),
        ("base64url-padded", b64(secret, true, true).into_bytes()),
    ];
    if secret.len() >= 32 {
        v.push(("raw-prefix16", secret[..16].to_vec()));
        v.push(("hex-prefix16", hex(&secret[..16], false)));
    }
    v
}

fn find(h: &[u8], n: &[u8]) -> bool {
    !n.is_empty() && h.len() >= n.len() && h.windows(n.len()).any(|w| w == n)
}

/// Every secret this process has ever read back from any store (the first 16 bytes of its raw form): what one
/// authenticator hands out must not contain the secret of a passkey held by another one either - in another store,
/// created on another thread.  Outputs are searched with a 16-byte window, in raw form only.
fn foreign(creds: &[Passkey], outputs: &[(String, Vec<u8>)]) -> Vec<String> {
    use std::collections::HashMap;
    static ALL: std::sync::Mutex<Option<HashMap<[u8; 16], &'static str>>> = std::sync::Mutex::new(None);
    let mut g = ALL.lock().unwrap();
    let all = g.get_or_insert_with(Default::default);
    for p in creds {
        for (sname, secret) in secrets_of(p) {
            if secret.len() >= 16 && secret.iter().any(|b| *b != secret[0]) {
                all.insert(secret[..16].try_into().unwrap(), sname);
            }
        }
    }
    let mut found = vec![];
    for (place, h) in outputs {
        // (Debug renderings are text: a raw secret cannot sit in them, and they are the bulk of the bytes)
        if place.contains("Debug") || place.contains("debug(") {
            continue;
        }
        for w in h.windows(16) {
            let k: [u8; 16] = w.try_into().unwrap();
            if let Some(sname) = all.get(&k) {
                found.push(format!("{place}:{sname}:raw-of-any-store"));
            }
        }
    }
    found
}

/// `outputs`: (where, bytes of a serialisation of something returned to the caller)
pub fn scan(creds: &[Passkey], outputs: &[(String, Vec<u8>)]) -> Vec<String> {
    let mut found = foreign(creds, outputs);
    for p in creds {
        for (sname, secret) in secrets_of(p) {
            for (enc, n) in needles(&secret) {
                for (place, h) in outputs {
                    if find(h, &n) {
                        found.push(format!("{place}:{sname}:{enc}"));
                    }
                }
            }
        }
    }
    found.sort();
    found.dedup();
    found
}

pub fn selftest() -> Result<(), String> {
    if b64(b"\xfb\xff\xfe", false, true) != "+//+" || b64(b"\xfb\xff", true, false) != "-_8" || b64(b"a", false, true) != "YQ==" {
        return Err("base64 encodings".into());
    }
    let secret: Vec<u8> = (0..32u8).map(|i| i.wrapping_mul(7).wrapping_add(3)).collect();
    for (enc, n) in needles(&secret) {
        let mut hay = b"prefix ".to_vec();
        hay.extend_from_slice(&n);
        hay.extend_from_slice(b" suffix");
        if !find(&hay, &n) {
            return Err(format!("needle {enc} not found in its own haystack"));
        }
    }
    Ok(())
}
