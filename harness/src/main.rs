//! pkverif: conformance harness binding the TLA+ specifications in /verif/spec to the code in /repo.
mod alloc;
mod authdata;
mod cer;
mod cerclient;
mod cerrun;
mod conc;
mod ctapcodec;
mod dec;
mod hid;
mod jsoncodec;
mod leaks;
mod psl;
mod rp;
mod rpid;
mod stores;
mod u2f;
mod util;

#[global_allocator]
static ALLOC: alloc::Counting = alloc::Counting;

fn main() {
    let raw: Vec<String> = std::env::args().skip(1).collect();
    if raw.is_empty() {
        eprintln!("usage: pkverif <domain> <mode> [--key value ...]");
        std::process::exit(2);
    }
    let args = util::Args::parse(&raw[1..]);
    match raw[0].as_str() {
        "authdata" => authdata::main(&args),
        "cer" => cerrun::main(&args),
        "conc" => conc::main(&args),
        "ctapcodec" => ctapcodec::main(&args),
        "dec" => dec::main(&args),
        "hid" => hid::main(&args),
        "jsoncodec" => jsoncodec::main(&args),
        "psl" => psl::main(&args),
        "rpid" => rpid::main(&args),
        "stores" => stores::main(&args),
        "u2f" => u2f::main(&args),
        other => {
            eprintln!("pkverif: unknown domain {other}");
            std::process::exit(2);
        }
    }
}
