fn main() { println!("pkverif"); }
