//! Public-suffix conformance (C10): parse the shipped .dat into rule sets for Psl.tla, probe the
//! compiled table through the public API and record the observations for PslBatch.tla.
use crate::util::{self, Args, Sink};
use public_suffix::{EffectiveTLDProvider, Error, DEFAULT_PROVIDER};
use rand::{seq::SliceRandom, Rng};
use serde_json::{json, Value};

pub const DAT: &str = "/repo/public-suffix/public_suffix_list.dat";

pub struct Rules {
    pub normal: Vec<Vec<String>>,
    pub wild: Vec<Vec<String>>,
    pub exc: Vec<Vec<String>>,
}

fn labels(s: &str) -> Vec<String> {
    s.split('.').map(|l| l.to_string()).collect()
}

/// The list format: one rule per line, `//` comments, `*.` wildcard prefix, `!` exception prefix;
/// only the text up to the first white space counts; rules are used in punycode form.
pub fn parse_dat(path: &str) -> Rules {
    let text = std::fs::read_to_string(path).unwrap_or_else(|e| {
        eprintln!("pkverif: cannot read {path}: {e}");
        std::process::exit(2)
    });
    let mut r = Rules {
        normal: vec![],
        wild: vec![],
        exc: vec![],
    };
    for line in text.lines() {
        let line = line.trim();
        if line.is_empty() || line.starts_with("//") {
            continue;
        }
        let rule = line.split_whitespace().next().unwrap();
        let (kind, body) = if let Some(b) = rule.strip_prefix('!') {
            (2, b)
        } else if let Some(b) = rule.strip_prefix("*.") {
            (1, b)
        } else {
            (0, rule)
        };
        let ascii = idna::domain_to_ascii(body).unwrap_or_else(|_| {
            eprintln!("pkverif: rule {rule} is not convertible to ASCII");
            std::process::exit(2)
        });
        match kind {
            0 => r.normal.push(labels(&ascii)),
            1 => r.wild.push(labels(&ascii)),
            _ => r.exc.push(labels(&ascii)),
        }
    }
    r
}

pub fn rules_json(r: &Rules) -> Value {
    json!({"normal": r.normal, "wild": r.wild, "exc": r.exc})
}

/// Number of labels of `part` if it is a suffix of `whole` cut at a label boundary, else -1.
fn aligned_suffix_labels(whole: &str, part: &str) -> i64 {
    if !whole.ends_with(part) {
        return -1;
    }
    let cut = whole.len() - part.len();
    if cut != 0 && whole.as_bytes()[cut - 1] != b'.' {
        return -1;
    }
    part.split('.').count() as i64
}

fn observe(kind: &str, name: &str) -> Value {
    let n = name.split('.').count();
    let empty = name.split('.').any(|l| l.is_empty());
    let ps = util::catch(|| DEFAULT_PROVIDER.public_suffix(name).to_string());
    let e1 = util::catch(|| DEFAULT_PROVIDER.effective_tld_plus_one(name).map(|s| s.to_string()));
    let etld = util::catch(|| DEFAULT_PROVIDER.is_effective_tld(name));
    let crash = ps.is_err() || e1.is_err() || etld.is_err();
    let (e1n, err) = match &e1 {
        Ok(Ok(s)) => (aligned_suffix_labels(name, s), "none"),
        Ok(Err(Error::EmptyLabel)) => (0, "EmptyLabel"),
        Ok(Err(Error::CannotDeriveETldPlus1)) => (0, "CannotDeriveETldPlus1"),
        Ok(Err(Error::InvalidPublicSuffix)) => (0, "InvalidPublicSuffix"),
        Ok(Err(_)) => (0, "other"),
        Err(_) => (0, "crash"),
    };
    // labels travel only for canonical names (ASCII, no quoting surprises); others are judged structurally
    let d: Vec<&str> = if kind == "canon" { name.split('.').collect() } else { vec![] };
    json!({"k": kind, "d": d, "n": n, "empty": empty,
           "ps": ps.as_ref().map(|s| aligned_suffix_labels(name, s)).unwrap_or(-1),
           "e1": e1n, "err": err, "etld": etld.unwrap_or(false), "crash": crash})
}

fn synth(rng: &mut impl Rng) -> String {
    const A: &[u8] = b"abcdefghijklmnopqrstuvwxyz0123456789-";
    let n = rng.gen_range(1..=8);
    let mut s: String = (0..n).map(|_| A[rng.gen_range(0..A.len())] as char).collect();
    if s.starts_with('-') || s.ends_with('-') {
        s = format!("q{s}q");
    }
    s
}

pub fn probe(args: &Args) {
    let rules = parse_dat(args.get("dat").unwrap_or(DAT));
    let mut rng = util::rng(args.seed());
    if let Some(p) = args.get("rules-out") {
        let mut s = Sink::create(p);
        s.emit(rules_json(&rules));
        s.finish();
    }
    let thorough = args.get("thorough").is_some();
    let mut out = Sink::create(args.req("out"));
    // pool of labels that occur in the list: extra labels drawn from it walk deeper into the table
    let mut pool: Vec<String> = rules
        .normal
        .iter()
        .chain(rules.wild.iter())
        .chain(rules.exc.iter())
        .flat_map(|r| r.iter().cloned())
        .collect();
    pool.sort();
    pool.dedup();
    let extra = |rng: &mut rand::rngs::StdRng| -> String {
        if rng.gen_bool(0.5) {
            synth(rng)
        } else {
            pool.choose(rng).unwrap().clone()
        }
    };
    let mut names: Vec<String> = vec![];
    let mut push = |v: Vec<String>, names: &mut Vec<String>| {
        if !v.is_empty() {
            names.push(v.join("."));
        }
    };
    let all: Vec<(u8, &Vec<String>)> = rules
        .normal
        .iter()
        .map(|r| (0u8, r))
        .chain(rules.wild.iter().map(|r| (1u8, r)))
        .chain(rules.exc.iter().map(|r| (2u8, r)))
        .collect();
    for (_kind, r) in &all {
        let base: Vec<String> = (*r).clone();
        // the rule's own name and 1..3 extra labels
        push(base.clone(), &mut names);
        let mut v = base.clone();
        let depth = if thorough { 3 } else { 2 };
        for _ in 0..depth {
            v.insert(0, extra(&mut rng));
            push(v.clone(), &mut names);
        }
        // leading label replaced (a sibling of the rule)
        let mut sib = base.clone();
        sib[0] = synth(&mut rng);
        push(sib.clone(), &mut names);
        if thorough {
            // leading label removed, and a name below the sibling
            push(base[1..].to_vec(), &mut names);
            sib.insert(0, extra(&mut rng));
            push(sib, &mut names);
            // a second, differently drawn, extension
            let mut v = base.clone();
            v.insert(0, synth(&mut rng));
            v.insert(0, synth(&mut rng));
            push(v, &mut names);
        }
    }
    // ---- table-search boundaries.  Whatever the compiled layout, a lookup walks from a parent to one of its
    // children by searching a sorted range: probe every parent with labels that sort before all / after all /
    // directly before and after its children, and with the first and last child labels of the parents that are its
    // neighbours in sorted order (the ranges a search could run into when it leaves its own).
    {
        use std::collections::BTreeMap;
        // parent (labels from the TLD down) -> child labels
        let mut kids: BTreeMap<Vec<String>, Vec<String>> = BTreeMap::new();
        for (_k, r) in &all {
            let rev: Vec<String> = r.iter().rev().cloned().collect();
            for i in 0..rev.len() {
                kids.entry(rev[..i].to_vec()).or_default().push(rev[i].clone());
            }
        }
        for v in kids.values_mut() {
            v.sort();
            v.dedup();
        }
        let parents: Vec<&Vec<String>> = kids.keys().collect();
        let mut by_depth: BTreeMap<usize, Vec<usize>> = BTreeMap::new();
        for (i, p) in parents.iter().enumerate() {
            by_depth.entry(p.len()).or_default().push(i);
        }
        let reach = if thorough { 4 } else { 2 };
        for idxs in by_depth.values() {
            for (pos, &pi) in idxs.iter().enumerate() {
                let parent = parents[pi];
                let cs = &kids[parent];
                let mut probes: Vec<String> = vec!["0".into(), "zzzzzzzz".into()];
                let pick: Vec<usize> = if cs.len() <= 4 || thorough { (0..cs.len()).collect() } else { vec![0, 1, cs.len() / 2, cs.len() - 2, cs.len() - 1] };
                for i in pick {
                    probes.push(format!("{}0", cs[i]));
                    if cs[i].len() > 1 {
                        probes.push(cs[i][..cs[i].len() - 1].to_string());
                    }
                }
                for d in 1..=reach {
                    for q in [pos.checked_sub(d), Some(pos + d)].into_iter().flatten() {
                        if let Some(&ni) = idxs.get(q) {
                            let ncs = &kids[parents[ni]];
                            probes.push(ncs[0].clone());
                            probes.push(ncs[ncs.len() - 1].clone());
                        }
                    }
                }
                probes.sort();
                probes.dedup();
                for l in probes {
                    if l.is_empty() || l == "*" {
                        continue;
                    }
                    let mut v: Vec<String> = parent.iter().rev().cloned().collect();
                    v.insert(0, l);
                    push(v.clone(), &mut names);
                    v.insert(0, "w".into());
                    push(v, &mut names);
                }
            }
        }
    }
    // ---- names that look like something else: IPv4 / IPv6 literals and other all-numeric names (no rule of the list
    // is numeric, so the implicit "*" rule decides: the last label is the suffix, the last two the registrable domain),
    // numeric labels above rules, host:port shapes.  A lookup has no business treating them specially.
    {
        let mut v: Vec<String> = vec![
            "127.0.0.1".into(), "10.0.0.1".into(), "1.2.3.7".into(), "255.255.255.255".into(), "0.0.0.0".into(), "256.1.1.1".into(),
            "1.2.3".into(), "1.2".into(), "7".into(), "1.2.3.4.5".into(), "01.02.03.04".into(), "0x7f.0.0.1".into(), "2130706433".into(),
            "::1".into(), "::ffff:1.2.3.4".into(), "fe80::1".into(), "[::1]".into(), "2001:db8::8.8.8.8".into(),
            "www.10.0.0.1".into(), "10.0.0.1.com".into(), "1.2.3.4.co.uk".into(), "192.168.1.1.ck".into(), "1.www.ck".into(),
            "example.com:443".into(), "a.b:80".into(), "localhost".into(), "a.localhost".into(), "1.localhost".into(),
        ];
        for _ in 0..(if thorough { 600 } else { 200 }) {
            let n = rng.gen_range(1..=6);
            let mut l: Vec<String> = (0..n).map(|_| match rng.gen_range(0..4) {
                0 => rng.gen_range(0..256u32).to_string(),
                1 => rng.gen_range(0..10u32).to_string(),
                2 => rng.gen_range(256..100_000u32).to_string(),
                _ => format!("{:x}", rng.gen_range(0..65536u32)),
            }).collect();
            if rng.gen_range(0..4) == 0 {
                // ... above a rule of the list
                let (_k, r) = all.choose(&mut rng).unwrap();
                l.extend(r.iter().cloned());
            }
            v.push(l.join("."));
        }
        names.extend(v.into_iter().filter(|s| !s.split('.').any(|l| l == "*" || l.is_empty())));
    }
    let canon = names.len();
    for n in &names {
        out.emit(observe("canon", n));
    }
    // arbitrary strings: structural clauses only
    let mut any: Vec<String> = vec![
        "".into(), ".".into(), "..".into(), "...".into(), "a.".into(), ".a".into(), "a..b".into(), "com.".into(),
        ".com".into(), "co..uk".into(), " ".into(), "\u{0}".into(), "a\u{0}.com".into(), "\u{1F600}.com".into(),
        "xn--".into(), "xn--.com".into(), "xn--a.xn--b".into(), "*.ck".into(), "!www.ck".into(), "*".into(),
        "a.b.c.d.e.f.g.h.i.j.k.l.m.n.o.p.q.r.s.t.u.v.w.x.y.z.com".into(),
        format!("{}.com", "a".repeat(10_000)), vec!["a"; 5000].join("."), ".".repeat(10_000),
        format!("{}uk", "co.".repeat(3000)), "\"quoted\".com".into(), "back\\slash.co.uk".into(),
    ];
    // empty labels around every wildcard and exception rule, and around a sample of the others
    for (k, r) in &all {
        if *k != 0 || rng.gen_range(0..if thorough { 2 } else { 20 }) == 0 {
            let base = r.join(".");
            any.push(format!(".{base}"));
            any.push(format!("{base}."));
            any.push(format!("a..{base}"));
            if r.len() > 1 {
                any.push(format!("{}..{}", r[0], r[1..].join(".")));
            }
        }
    }
    let narb = any.len() + args.num("arbitrary", if thorough { 100_000 } else { 5_000 }) as usize;
    while any.len() < narb {
        let (_k, r) = all.choose(&mut rng).unwrap();
        let base = r.join(".");
        let s = match rng.gen_range(0..13) {
            // characters whose lower / upper case has another UTF-8 length, and characters IDNA treats as dots
            11 => format!("{}.{}", ["\u{212A}", "\u{0130}x", "a\u{1E9E}", "\u{FB00}", "\u{2126}\u{212A}"].choose(&mut rng).unwrap(), base),
            12 => format!("{}{}{}", synth(&mut rng), ["\u{3002}", "\u{FF0E}", "\u{FF61}", "\u{00AD}.", ".\u{200D}"].choose(&mut rng).unwrap(), base),
            // non-ASCII labels to the left of the rule (multi-byte characters shift byte and character offsets apart)
            9 => format!("{}.{}", ["b\u{fc}cher", "\u{5e02}", "m\u{fc}nchen", "\u{1F600}", "caf\u{e9}-\u{e9}\u{e9}"].choose(&mut rng).unwrap(), base),
            10 => format!("{}.{}.{}", synth(&mut rng), ["\u{e9}", "\u{5e02}\u{5e02}\u{5e02}", "stra\u{df}e"].choose(&mut rng).unwrap(), base),
            0 => base.to_uppercase(),
            1 => {
                let (u, _) = idna::domain_to_unicode(&base);
                format!("{}.{}", synth(&mut rng), u)
            }
            2 => format!("{}..{}", synth(&mut rng), base),
            3 => format!("{}.{}.", synth(&mut rng), base),
            4 => format!(".{}", base),
            5 => {
                // mixed case of a name below the rule
                let s = format!("{}.{}", synth(&mut rng), base);
                s.chars().map(|c| if rng.gen_bool(0.5) { c.to_ascii_uppercase() } else { c }).collect()
            }
            6 => {
                // random printable junk with dots
                let n = rng.gen_range(0..40);
                (0..n).map(|_| *b".ab-_ Z9\xc3\xa9".choose(&mut rng).unwrap() as char).collect()
            }
            7 => {
                let n = rng.gen_range(1..6);
                (0..n).map(|_| synth(&mut rng)).collect::<Vec<_>>().join(".")
            }
            _ => {
                let (u, _) = idna::domain_to_unicode(&base);
                u
            }
        };
        any.push(s);
    }
    for n in &any {
        out.emit(observe("any", n));
    }
    let n = out.finish();
    println!("{}", json!({"rules": all.len(), "canonical": canon, "arbitrary": any.len(), "events": n,
        "sample": [names[names.len() / 3], names[names.len() / 2]]}));
}

/// Exhaustive walk: every label that occurs anywhere in the list, under every parent of the list (part k of n of the
/// parents).  A lookup that leaves the range of its parent - into a neighbour's children, past the end of the table -
/// or that confuses labels with a common prefix disagrees with the algorithm on one of these names.
pub fn cross(args: &Args) {
    let rules = parse_dat(args.get("dat").unwrap_or(DAT));
    let (k, n) = (args.num("part", 0) as usize, args.num("of", 1) as usize);
    let mut out = Sink::create(args.req("out"));
    let all: Vec<&Vec<String>> = rules.normal.iter().chain(rules.wild.iter()).chain(rules.exc.iter()).collect();
    let mut pool: Vec<String> = all.iter().flat_map(|r| r.iter().cloned()).collect();
    pool.sort();
    pool.dedup();
    let mut parents: Vec<Vec<String>> = vec![];
    for r in &all {
        for i in 0..r.len() {
            parents.push(r[i + 1..].to_vec());
        }
    }
    parents.sort();
    parents.dedup();
    let mut names = 0u64;
    for (i, p) in parents.iter().enumerate() {
        if i % n != k {
            continue;
        }
        for l in &pool {
            let mut v = vec![l.clone()];
            v.extend(p.iter().cloned());
            out.emit(observe("canon", &v.join(".")));
            names += 1;
        }
    }
    let ev = out.finish();
    println!("{}", json!({"parents": parents.len(), "labels": pool.len(), "names": names, "events": ev}));
}

pub fn main(args: &Args) {
    util::quiet_panics();
    match args.pos.first().map(|s| s.as_str()) {
        Some("probe") => probe(args),
        Some("cross") => cross(args),
        Some("rules") => {
            let mut s = Sink::create(args.req("out"));
            s.emit(rules_json(&parse_dat(args.get("dat").unwrap_or(DAT))));
            s.finish();
        }
        Some("one") => println!("{}", observe("canon", args.req("name"))),
        _ => {
            eprintln!("usage: pkverif psl probe|rules|one ...");
            std::process::exit(2)
        }
    }
}
