-------------------------------- MODULE CerMC --------------------------------
(***************************************************************************)
(* Model checking of the ceremonies (layer B, Ceremony!Step) against the   *)
(* listed properties (layer A, CerProps!Violated), and export of every     *)
(* explored behaviour for replay on the real code.                         *)
(*                                                                         *)
(* A behaviour: a plan [cfg, stores, cers] is chosen initially; the        *)
(* ceremonies `cers` are run in order against stores[1], then (Reset)      *)
(* against stores[2], ... - consecutive runs that differ only in the store *)
(* content are what the non-interference clause of C04 compares.           *)
(* The sets Cfgs / Stores / Cers are bound per configuration file.              *)
(***************************************************************************)
EXTENDS Naturals, Integers, Sequences, FiniteSets, TLC, Json

CONSTANTS Cfgs,        \* set of authenticator/store configurations
          StoreLists,  \* set of sequences of initial stores
          CerLists,    \* set of sequences of ceremony descriptors [api, op, req, env]
          Known,       \* invariant names exempted (known findings), checked to be reachable separately
          Export

C == INSTANCE Ceremony
CL == INSTANCE ClientCer
P == INSTANCE CerProps

VARIABLES plan, run, idx, st, obs, phase
vars == <<plan, run, idx, st, obs, phase>>

Idle == [api |-> "none", done |-> TRUE]

ResetEv == [ev |-> "Reset", run |-> run, cfg |-> plan.cfg, store |-> plan.stores[run]]

Init ==
    /\ plan \in [cfg : Cfgs, stores : StoreLists, cers : CerLists]
    /\ run = 1
    /\ idx = 0
    /\ st = [store |-> plan.stores[1], nnew |-> 0, cer |-> Idle, cfg |-> plan.cfg]
    /\ obs = P!Observe(P!NoObs, [ev |-> "Reset", run |-> 1, cfg |-> plan.cfg, store |-> plan.stores[1]])
    /\ phase = "idle"

\* begin the next ceremony of the run
\* the environment changes between two ceremonies (a descriptor with api "env"): what the user-validation method
\* and the store report from now on
NewCfg(cfg, r) == [k \in DOMAIN cfg |-> IF k \in DOMAIN r THEN r[k] ELSE cfg[k]]     \* the fields the step names change
Reconfig ==
    /\ phase = "idle" /\ idx < Len(plan.cers) /\ plan.cers[idx + 1].api = "env"
    /\ LET n == NewCfg(st.cfg, plan.cers[idx + 1].req) IN
       /\ st' = [st EXCEPT !.cfg = n]
       /\ obs' = P!Observe(obs, [ev |-> "Reconfig", d |-> [cfg |-> n]])
    /\ idx' = idx + 1
    /\ UNCHANGED <<plan, run, phase>>

Begin ==
    /\ phase = "idle" /\ idx < Len(plan.cers) /\ plan.cers[idx + 1].api # "env"
    /\ LET c == plan.cers[idx + 1] IN
       /\ st' = [st EXCEPT !.cer = IF c.api = "client" THEN CL!NewCer(c.op, c.req, c.env) ELSE C!NewCer(c.api, c.op, c.req, c.env)]
       /\ obs' = P!Observe(obs, [ev |-> "Begin", d |-> [api |-> c.api, op |-> c.op, req |-> c.req, env |-> c.env]])
    /\ idx' = idx + 1
    /\ phase' = "running"
    /\ UNCHANGED <<plan, run>>

\* one step of the ceremony in progress: a trait call or the result
StepCer ==
    /\ phase = "running" /\ ~st.cer.done
    /\ LET r == IF st.cer.api = "client" THEN CL!Step(st.cfg, st.cer, st.store, st.nnew)
                ELSE C!Step(st.cfg, st.cer, st.store, st.nnew) IN
       /\ st' = [st EXCEPT !.store = r.store, !.nnew = r.nnew, !.cer = r.cer]
       /\ obs' = P!Observe(obs, r.ev)
    /\ UNCHANGED <<plan, run, idx, phase>>

\* the ceremony is over: the store as the next ceremony will find it
Snap ==
    /\ phase = "running" /\ st.cer.done
    /\ obs' = P!Observe(obs, [ev |-> "Snap", d |-> [snap |-> st.store, nnew |-> st.nnew]])
    /\ phase' = "idle"
    /\ UNCHANGED <<plan, run, idx, st>>

\* next run: same ceremonies against the next initial store
NextRun ==
    /\ phase = "idle" /\ idx = Len(plan.cers) /\ run < Len(plan.stores)
    /\ run' = run + 1
    /\ idx' = 0
    /\ st' = [store |-> plan.stores[run + 1], nnew |-> 0, cer |-> Idle, cfg |-> plan.cfg]
    /\ obs' = P!Observe(obs, [ev |-> "Reset", run |-> run + 1, cfg |-> plan.cfg, store |-> plan.stores[run + 1]])
    /\ UNCHANGED <<plan, phase>>

Next == Begin \/ Reconfig \/ StepCer \/ Snap \/ NextRun
Spec == Init /\ [][Next]_vars

Done == phase = "idle" /\ idx = Len(plan.cers) /\ run = Len(plan.stores)

\* "terminates" (C18) as a liveness property of the model: under weak fairness every plan runs to its end - no ceremony
\* of Ceremony!Step / ClientCer!Step can take steps for ever (CerMC_*live.cfg: SPECIFICATION FairSpec, PROPERTY Termination)
FairSpec == Spec /\ WF_vars(Next)
Termination == <>Done

\* Layer A on the model
PropertiesHold == \/ P!Violated(obs) \subseteq Known
                  \/ PrintT(<<"VIOLATED", P!Violated(obs) \ Known>>) /\ FALSE

ExportInv == (Export /\ Done) => PrintT(<<"REPLAY", ToJson(plan)>>)

-----------------------------------------------------------------------------
(* building blocks for the configurations                                   *)

Ctr(h, l) == [hi |-> h, lo |-> l]
NoCtr == [hi |-> -1, lo |-> 0]
Cred(id, rp, user, ctr, hm) == [id |-> id, rp |-> rp, user |-> user, ctr |-> ctr, hm |-> hm]

BaseCfg == [uvCap |-> "configured", upCap |-> TRUE, counterOn |-> TRUE, idLen |-> 16, hmac |-> "off", mc |-> FALSE,
            storeKind |-> "reference", disc |-> "full", emptyAsErr |-> FALSE,
            wrap |-> "none", tr |-> "default",
            order |-> "oldest"]  \* the reference store lists a relying party's credentials oldest first / newest first     \* which shipped lock wrapper stands in front of the reference store (transparent in the model)

NoPrfReq == [given |-> FALSE, eval |-> "absent", byCred |-> <<>>, byCredGiven |-> FALSE]
BaseReq == [rp |-> "r1", user |-> "u1", algs |-> <<"ES256">>, exclude |-> <<>>, excludeGiven |-> FALSE,
            allow |-> <<>>, allowGiven |-> FALSE, rk |-> FALSE, up |-> TRUE, uv |-> FALSE, pinAuth |-> FALSE,
            hs |-> "absent", prf |-> NoPrfReq, cdh |-> "h1",
            unkType |-> FALSE]      \* the allow / exclude descriptors carry a credential type the library does not know

UvOk(p, v) == [kind |-> "ok", pres |-> p, verif |-> v, err |-> 0]
UvErr(code) == [kind |-> "err", pres |-> FALSE, verif |-> FALSE, err |-> code]
UvAsked == [kind |-> "asked", pres |-> TRUE, verif |-> FALSE, err |-> 0]     \* verifies exactly when a call requires it
BaseEnv == [uv |-> UvOk(TRUE, TRUE), faults |-> <<0, 0, 0>>, cancelAt |-> -1]

Cer(api, op, req, env) == [api |-> api, op |-> op, req |-> req, env |-> env]
\* a change of the environment between two ceremonies (consumed by the action Reconfig)
Env(u, p, d) == [api |-> "env", op |-> "reconfig", req |-> [uvCap |-> u, upCap |-> p, disc |-> d], env |-> BaseEnv]
\* another authenticator object, configured differently, takes over the same store (a new release of the application,
\* a second device profile): PRF support, credential id length, signature counters.  Also consumed by Reconfig.
Rebuild(h, n, c) == [api |-> "env", op |-> "rebuild", req |-> [hmac |-> h, idLen |-> n, counterOn |-> c], env |-> BaseEnv]

-----------------------------------------------------------------------------
(* C04: the complete product                                                *)

C04_Cfgs == { [BaseCfg EXCEPT !.uvCap = u, !.upCap = p] : u \in {"none", "unconfigured", "configured"}, p \in BOOLEAN }
C04_Stores == { << <<>>, <<Cred("c1", "r1", "u1", Ctr(0, 7), "none")>> >> }
C04_Answers == { UvOk(p, v) : p \in BOOLEAN, v \in BOOLEAN } \cup { UvErr(39), UvErr(47), UvAsked }
C04_Cers ==
    { << Cer("ctap2", op, [BaseReq EXCEPT !.rk = rk, !.up = up, !.uv = uv, !.pinAuth = pin],
             [BaseEnv EXCEPT !.uv = a]) >> :
        op \in {"mc", "ga"}, rk \in BOOLEAN, up \in BOOLEAN, uv \in BOOLEAN, pin \in BOOLEAN, a \in C04_Answers }

-----------------------------------------------------------------------------
(* C11 (authenticator level): store capability x rk, then an assertion      *)

\* the store's capability must reach the authenticator through every shipped lock wrapper as well
Wraps == {"none", "mutex", "rwlock", "arcmutex", "arcrwlock"}
C11_Cfgs == { [BaseCfg EXCEPT !.disc = d, !.wrap = w] : d \in {"full", "nondisc", "forced"}, w \in Wraps }
C11_Stores == { << <<>> >> }
C11_Cers == { << Cer("ctap2", "mc", [BaseReq EXCEPT !.rk = rk, !.user = u], BaseEnv),
                 Cer("ctap2", "ga", [BaseReq EXCEPT !.up = up], [BaseEnv EXCEPT !.uv = UvOk(p, v)]) >> :
                rk \in BOOLEAN, up \in BOOLEAN, p \in BOOLEAN, v \in BOOLEAN, u \in {"u1", "u0", "u64"} }

-----------------------------------------------------------------------------
(* C07: every store call failing (singly and combined), every cancel point  *)

FaultCodes == {0, 1, 40, 242}       \* none, a CTAP1 error, a known CTAP2 error (KeyStoreFull), a vendor error
FaultPlans == { <<a, b, c>> : a \in FaultCodes, b \in FaultCodes, c \in FaultCodes }
CancelPoints == -1..6

C07_Cfgs == { [BaseCfg EXCEPT !.hmac = "withoutuv", !.mc = TRUE] }
C07_Stores == { << <<Cred("c1", "r1", "u1", Ctr(0, 7), "both"), Cred("c2", "r1", "u2", NoCtr, "none")>> >>,
                \* two counter-bearing credentials without PRF secrets: an assertion that asks for a PRF evaluation fails
                \* after the counter of the ONE selected credential was written
                << <<Cred("c1", "r1", "u1", Ctr(0, 7), "none"), Cred("c2", "r1", "u2", Ctr(0, 3), "none")>> >> }
PrfOne == [given |-> TRUE, eval |-> "one", byCred |-> <<>>, byCredGiven |-> FALSE]
C07_McReqs == { [BaseReq EXCEPT !.exclude = x, !.excludeGiven = (x # <<>>), !.rk = rk, !.prf = p, !.user = "u3"] :
                  x \in {<<>>, <<"c1">>, <<"x1">>}, rk \in BOOLEAN, p \in {NoPrfReq, PrfOne} }
              \* a registration for an account that already has a (discoverable) credential at the RP
              \cup { [BaseReq EXCEPT !.rk = rk, !.user = "u1"] : rk \in BOOLEAN }
C07_GaReqs == { [BaseReq EXCEPT !.allow = a, !.allowGiven = (a # <<>>), !.prf = p] :
                  a \in {<<>>, <<"c1">>, <<"c2">>, <<"c1", "c2">>, <<"c2", "x1", "c1">>}, p \in {NoPrfReq, PrfOne} }
C07_Cers ==
    { << Cer("ctap2", "mc", r, [BaseEnv EXCEPT !.faults = f, !.cancelAt = k]) >> :
        r \in C07_McReqs, f \in FaultPlans, k \in CancelPoints }
    \cup
    { << Cer("ctap2", "ga", r, [BaseEnv EXCEPT !.faults = f, !.cancelAt = k]) >> :
        r \in C07_GaReqs, f \in { p \in FaultPlans : p[3] = 0 }, k \in -1..4 }

-----------------------------------------------------------------------------
(* C05: store contents over two relying parties x allow / exclude lists     *)

RpChoice == {"r1", "r2", "absent"}
C05_Contents ==
    { SelectSeq(<<Cred("c1", a, "u1", NoCtr, "none"), Cred("c2", b, "none", Ctr(0, 1), "none"),
                  Cred("c3", c, "u2", NoCtr, "none")>>, LAMBDA x : x.rp # "absent") :
        a \in RpChoice, b \in RpChoice, c \in RpChoice }
C05_Stores == { <<s>> : s \in C05_Contents }
C05_Lists == { <<>>, <<"c1">>, <<"c2">>, <<"c3">>, <<"x1">>, <<"c1", "c2">>, <<"c2", "c1">>, <<"c1", "c3">>,
               <<"c3", "x1">>, <<"x1", "c2">>, <<"c1", "c2", "c3">> }
C05_Cers ==
    { << Cer("ctap2", "ga", [BaseReq EXCEPT !.rp = r, !.allow = a, !.allowGiven = g, !.unkType = t], BaseEnv) >> :
        r \in {"r1", "r2"}, a \in C05_Lists, g \in BOOLEAN, t \in BOOLEAN }
    \cup
    { << Cer("ctap2", "mc", [BaseReq EXCEPT !.rp = r, !.exclude = a, !.excludeGiven = g, !.user = "u3", !.unkType = t], BaseEnv) >> :
        r \in {"r1", "r2"}, a \in C05_Lists, g \in BOOLEAN, t \in BOOLEAN }
\* shipped stores: also a relying party whose id differs from r1 only in letter case / is a sub-domain of it
C05_NearContents ==
    { SelectSeq(<<Cred("c1", a, "u1", NoCtr, "none"), Cred("c3", c, "u2", Ctr(0, 1), "none")>>, LAMBDA x : x.rp # "absent") :
        a \in {"r1", "absent"}, c \in {"r1case", "r1sub"} }
C05_NearLists == {<<"c1:pre">>, <<"c1:ext">>, <<"c1:flip">>, <<"id:empty">>, <<"c3:pre", "c1:ext">>}
C05_NearCers ==
    { << Cer("ctap2", "ga", [BaseReq EXCEPT !.rp = r, !.allow = a, !.allowGiven = a # <<>>], BaseEnv) >> :
        r \in {"r1", "r1case", "r1sub"}, a \in {<<>>, <<"c1">>, <<"c3">>, <<"c1", "c3">>} \cup C05_NearLists }
    \cup
    { << Cer("ctap2", "mc", [BaseReq EXCEPT !.rp = r, !.exclude = a, !.excludeGiven = TRUE, !.user = "u3"], BaseEnv) >> :
        r \in {"r1", "r1case", "r1sub"}, a \in {<<"c1">>, <<"c3">>, <<"c1", "c3">>} \cup C05_NearLists }
\* an exclude-list hit together with something else that is wrong with the request: excluded "exactly when" a listed
\* credential is held for the RP - the other defect does not get to answer first
C05_PrecCers ==
    { << Cer("ctap2", "mc", [BaseReq EXCEPT !.exclude = x, !.excludeGiven = TRUE, !.user = "u3", !.algs = a, !.pinAuth = p, !.rk = k], BaseEnv) >> :
        x \in {<<"c1">>, <<"x1">>, <<"x1", "c2">>}, a \in {<<"ES256">>, <<"RS256">>, <<>>}, p \in BOOLEAN, k \in BOOLEAN }
C05_PrecCfgs == { [BaseCfg EXCEPT !.disc = d] : d \in {"full", "nondisc"} }
C05_PrecStores == { << <<Cred("c1", "r1", "u1", NoCtr, "none"), Cred("c2", "r1", "u2", Ctr(0, 1), "none")>> >> }
C05_NearStores == { <<s>> : s \in C05_NearContents }
C05_NearSlotStores == { <<s>> : s \in { t \in C05_NearContents : Len(t) <= 1 } }
C05_CfgsRef == { [BaseCfg EXCEPT !.emptyAsErr = e] : e \in BOOLEAN }
C05_CfgsMem == { [BaseCfg EXCEPT !.storeKind = "memory", !.disc = "forced"] }
C05_CfgsSlot == { [BaseCfg EXCEPT !.storeKind = "slot", !.disc = "forced"] }
C05_SlotStores == { <<s>> : s \in { t \in C05_Contents : Len(t) <= 1 } }
\* the map-like store has no listing order: an id-less lookup is only predictable with one credential per RP
C05_MemStores == { <<s>> : s \in { t \in C05_Contents :
                      \A i \in 1..Len(t) : \A j \in 1..Len(t) : (i # j) => t[i].rp # t[j].rp } }
    \cup { <<s>> : s \in C05_Contents }

-----------------------------------------------------------------------------
(* C08: counters                                                            *)

C08_Ctrs == { NoCtr, Ctr(0, 0), Ctr(0, 1), Ctr(32767, 65535), Ctr(32768, 0), Ctr(65535, 65534), Ctr(65535, 65535) }
C08_Cfgs == { [BaseCfg EXCEPT !.hmac = "withoutuv"],
              [BaseCfg EXCEPT !.hmac = "withoutuv", !.storeKind = "memory", !.disc = "forced"] }
C08_Stores == { << <<Cred("c1", "r1", "u1", a, "both"), Cred("c2", "r1", "u2", b, "none")>> >> :
                  a \in C08_Ctrs, b \in {NoCtr, Ctr(0, 5)} }
C08_Ga(id, p) == Cer("ctap2", "ga", [BaseReq EXCEPT !.allow = <<id>>, !.allowGiven = TRUE,
                                                    !.prf = IF p THEN PrfOne ELSE NoPrfReq], BaseEnv)
C08_Steps == { C08_Ga(id, p) : id \in {"c1", "c2"}, p \in BOOLEAN } \cup
             { Cer("ctap2", "mc", [BaseReq EXCEPT !.user = "u3"], BaseEnv) }
C08_Cers == UNION { [1..n -> C08_Steps] : n \in 1..3 }

-----------------------------------------------------------------------------
(* C02 / C03 (authenticator level): what a relying party can verify         *)

\* "u:<alg>": the entry carries a credential type the library does not know (such entries are not supported entries)
Algs == {"ES256", "RS256", "EdDSA", "unknown", "u:RS256"}
AlgLists == UNION { [1..n -> Algs] : n \in 0..3 }
C02_Cfgs == { [BaseCfg EXCEPT !.idLen = n, !.counterOn = c] : n \in {0, 15, 16, 40, 64, 65, 255}, c \in BOOLEAN }
C02_Stores == { << <<>> >>, << <<Cred("c1", "r1", "u1", NoCtr, "none")>> >> }
\* identifiers that are not signature algorithms at all (non-negative COSE values) are unsupported entries like any other
OddAlgLists == { <<"HMAC", "ES256">>, <<"ES256", "A128GCM">>, <<"zero", "ES256">>, <<"HMAC">>, <<"zero", "A128GCM", "RS256">> }
C02_Cers == { << Cer("ctap2", "mc", [BaseReq EXCEPT !.algs = a, !.rk = TRUE], BaseEnv) >> : a \in AlgLists \cup OddAlgLists }
C02_HistCers ==
    { << Cer("ctap2", "mc", [BaseReq EXCEPT !.algs = a, !.rp = r1], BaseEnv),
         Cer("ctap2", "mc", [BaseReq EXCEPT !.algs = b, !.rp = r2, !.user = "u2", !.rk = TRUE], BaseEnv),
         Cer("ctap2", "mc", [BaseReq EXCEPT !.algs = <<"RS256", "ES256">>, !.rp = "r1", !.user = "u2"], BaseEnv) >> :
        a \in {<<"ES256">>, <<"EdDSA">>}, b \in {<<"ES256", "RS256">>, <<"unknown">>}, r1 \in {"r1", "r2"}, r2 \in {"r1", "r2"} }

\* repeated registrations for one account (same RP, same user handle) on the shipped map store: each adds one record
C02_HistMemCfgs == { [BaseCfg EXCEPT !.storeKind = "memory", !.disc = "forced", !.counterOn = c] : c \in BOOLEAN }
C02_HistMemStores == { << <<>> >>, << <<Cred("c1", "r1", "u1", NoCtr, "none"), Cred("c2", "r2", "u1", Ctr(0, 2), "none")>> >> }
C02_HistMemCers ==
    { << Cer("ctap2", "mc", [BaseReq EXCEPT !.user = u1, !.rk = k1], BaseEnv),
         Cer("ctap2", "mc", [BaseReq EXCEPT !.user = u2, !.rk = k2], BaseEnv),
         Cer("ctap2", "mc", [BaseReq EXCEPT !.user = "u1", !.rp = "r2", !.rk = TRUE], BaseEnv) >> :
        u1 \in {"u1", "u2"}, u2 \in {"u1", "u2"}, k1 \in BOOLEAN, k2 \in BOOLEAN }

C03_Cfgs == { [BaseCfg EXCEPT !.counterOn = c, !.emptyAsErr = e] : c \in BOOLEAN, e \in BOOLEAN }
C03_Stores == { << <<>> >>, << <<Cred("c1", "r2", "u1", Ctr(0, 3), "none")>> >> }
C03_Reg(r, u, rk) == Cer("ctap2", "mc", [BaseReq EXCEPT !.rp = r, !.user = u, !.rk = rk], BaseEnv)
C03_Auth(r, a, uv, ans) == Cer("ctap2", "ga", [BaseReq EXCEPT !.rp = r, !.allow = a, !.allowGiven = (a # <<"absent">>),
                                               !.uv = uv], [BaseEnv EXCEPT !.uv = ans])
C03_Allow == { <<>>, <<"n1">>, <<"n2">>, <<"x1">>, <<"c1">>, <<"x1", "n1">>, <<"n2", "n1">> }
C03_Cers ==
    { << C03_Reg("r1", "u1", rk), C03_Reg(r, "u2", TRUE),
         Cer("ctap2", "ga", [BaseReq EXCEPT !.rp = ra, !.allow = a, !.allowGiven = g, !.uv = uv], [BaseEnv EXCEPT !.uv = UvOk(TRUE, uv)]) >> :
        rk \in BOOLEAN, r \in {"r1", "r2"}, ra \in {"r1", "r2"}, a \in C03_Allow, g \in BOOLEAN, uv \in BOOLEAN }

-----------------------------------------------------------------------------
(* client-level requests                                                    *)

NoCprf == [kind |-> "absent", eval |-> "absent", byCred |-> <<>>, byCredGiven |-> FALSE, badlen |-> FALSE]
\* origin / RP-ID representatives: [origin, rpid, rp (effective RP ID by definition), dom (assert_domain's verdict)]
DomOk1   == [origin |-> "o.r1w", rpid |-> "r1", rp |-> "r1", dom |-> "ok"]
DomOk1p  == [origin |-> "o.r1p", rpid |-> "r1", rp |-> "r1", dom |-> "ok"]
DomHost  == [origin |-> "o.r1", rpid |-> "absent", rp |-> "r1", dom |-> "ok"]
DomOk2   == [origin |-> "o.r2", rpid |-> "absent", rp |-> "r2", dom |-> "ok"]
DomEvil  == [origin |-> "o.evil", rpid |-> "r1", rp |-> "r1", dom |-> "OriginRpMissmatch"]
DomHttp  == [origin |-> "o.http", rpid |-> "r1", rp |-> "r1", dom |-> "UnprotectedOrigin"]
DomSufx  == [origin |-> "o.r1w", rpid |-> "com", rp |-> "com", dom |-> "InvalidRpId"]
DomOther == [origin |-> "o.r2", rpid |-> "r1", rp |-> "r1", dom |-> "OriginRpMissmatch"]
DomLocal == [origin |-> "o.local", rpid |-> "absent", rp |-> "localhost", dom |-> "InsecureLocalhostNotAllowed"]
DomIp    == [origin |-> "o.ip", rpid |-> "absent", rp |-> "none", dom |-> "OriginMissingDomain"]
\* Android application origins: the asset-link host plays the role of the origin host, no scheme requirement, and
\* clientDataJSON.origin is android:apk-key-hash:<fingerprint>
DomAnd1    == [origin |-> "o.and.r1", rpid |-> "absent", rp |-> "r1", dom |-> "ok"]
DomAnd1w   == [origin |-> "o.and.r1w", rpid |-> "r1", rp |-> "r1", dom |-> "ok"]
DomAndEvil == [origin |-> "o.and.evil", rpid |-> "r1", rp |-> "r1", dom |-> "OriginRpMissmatch"]
\* an internationalised host (in punycode and as typed); r3 is its punycode name
DomIdn     == [origin |-> "o.idn", rpid |-> "absent", rp |-> "r3", dom |-> "ok"]
DomIdnU    == [origin |-> "o.idnu", rpid |-> "r3", rp |-> "r3", dom |-> "ok"]
\* relying parties the client treats specially (quirks.rs): nothing the properties speak of may differ for them
DomQ1      == [origin |-> "o.q1", rpid |-> "absent", rp |-> "rq1", dom |-> "ok"]
DomQ2      == [origin |-> "o.q2", rpid |-> "rq2", rp |-> "rq2", dom |-> "ok"]
DomsOk  == {DomOk1, DomOk1p, DomHost, DomOk2, DomAnd1, DomAnd1w, DomIdn, DomIdnU, DomQ1, DomQ2}
DomsBad == {DomEvil, DomHttp, DomSufx, DomOther, DomLocal, DomIp, DomAndEvil}

BaseCReq ==
    [BaseReq EXCEPT !.rp = "r1"] @@
    [origin |-> "o.r1w", rpid |-> "r1", dom |-> "ok", chal |-> "c32", authSel |-> TRUE, residentKey |-> "absent",
     requireRk |-> FALSE, uvreq |-> "preferred", credProps |-> "absent", cdmode |-> "default", cprf |-> NoCprf,
     att |-> "absent"]      \* attestation conveyance preference (and formats): no effect on the outcome
WithDom(r, d) == [r EXCEPT !.origin = d.origin, !.rpid = d.rpid, !.rp = d.rp, !.dom = d.dom]
\* the CTAP-shaped prf member of a client request: what a well-formed request means
WithCprf(r, c) == [r EXCEPT !.cprf = c,
                            !.prf = [given |-> c.kind # "absent", eval |-> c.eval, byCred |-> c.byCred, byCredGiven |-> c.byCredGiven]]

\* C04 through the client: userVerification -> uv, up = true
C04c_Cers ==
    { << Cer("client", op, [BaseCReq EXCEPT !.uvreq = u, !.authSel = s], [BaseEnv EXCEPT !.uv = a]) >> :
        op \in {"mc", "ga"}, u \in {"required", "preferred", "discouraged"}, s \in BOOLEAN, a \in C04_Answers }

\* C11 through the client: capability x residentKey x requireResidentKey x credProps, then an assertion
C11c_Cers ==
    { << Cer("client", "mc", [BaseCReq EXCEPT !.residentKey = rk, !.requireRk = rr, !.credProps = cp], BaseEnv),
         Cer("client", "ga", [BaseCReq EXCEPT !.uvreq = u], [BaseEnv EXCEPT !.uv = UvOk(TRUE, u # "discouraged")]) >> :
        \* "unknown": a residentKey string this library does not know, as it arrives in a relying party's JSON - ignored,
        \* i.e. requireResidentKey decides
        rk \in {"absent", "discouraged", "preferred", "required", "unknown"}, rr \in BOOLEAN, cp \in {"absent", "false", "true"},
        u \in {"preferred", "discouraged"} }
    \cup
    { << Cer("client", "mc", [WithDom(BaseCReq, d) EXCEPT !.residentKey = rk, !.credProps = cp], BaseEnv),
         Cer("client", "ga", WithDom(BaseCReq, d), BaseEnv) >> :
        d \in {DomQ1, DomQ2}, rk \in {"discouraged", "required"}, cp \in {"absent", "false", "true"} }
    \cup
    \* user handles of zero and of 64 bytes
    { << Cer("client", "mc", [BaseCReq EXCEPT !.residentKey = rk, !.credProps = "true", !.user = u], BaseEnv),
         Cer("client", "ga", BaseCReq, BaseEnv) >> : rk \in {"discouraged", "required"}, u \in {"u0", "u64"} }
    \cup
    \* the store refuses the save (key store full, another status) at the first or at a later attempt: what the client
    \* reports afterwards still describes what is stored
    { << Cer("client", "mc", [BaseCReq EXCEPT !.residentKey = rk, !.credProps = "true", !.user = "u2"], [BaseEnv EXCEPT !.faults = f]),
         Cer("client", "ga", BaseCReq, BaseEnv) >> :
        rk \in {"preferred", "required", "discouraged"}, f \in {<<40, 0, 0>>, <<0, 40, 0>>, <<1, 0, 0>>} }
    \cup
    \* the whole authenticatorSelection member absent: no resident key is asked for
    { << Cer("client", "mc", [BaseCReq EXCEPT !.authSel = FALSE, !.credProps = cp], BaseEnv),
         Cer("client", "ga", BaseCReq, BaseEnv) >> : cp \in {"absent", "true"} }
    \cup
    \* the store's capability changes between ceremonies (after a capability query / a sign-in): what is asked of the
    \* store NOW decides
    { << Cer("ctap2", "info", BaseReq, BaseEnv), Env("configured", TRUE, d2),
         Cer("client", "mc", [BaseCReq EXCEPT !.residentKey = rk, !.credProps = "true", !.user = "u2"], BaseEnv) >> :
        d2 \in {"full", "nondisc", "forced"}, rk \in {"required", "preferred", "discouraged"} }
    \cup
    { << Cer("client", "ga", BaseCReq, BaseEnv), Env("configured", TRUE, d2),
         Cer("ctap2", "mc", [BaseReq EXCEPT !.rk = k, !.user = "u2"], BaseEnv) >> :
        d2 \in {"full", "nondisc", "forced"}, k \in BOOLEAN }

\* C02 through the client
C02c_Cfgs == { [BaseCfg EXCEPT !.idLen = n, !.counterOn = c] : n \in {16, 64}, c \in BOOLEAN }
C02c_AlgLists == { <<>>, <<"ES256">>, <<"RS256", "ES256">>, <<"EdDSA", "unknown">>, <<"RS256">>, <<"unknown", "ES256", "EdDSA">>,
                   <<"u:RS256">>, <<"u:EdDSA", "u:RS256">>, <<"u:RS256", "ES256">>, <<"HMAC", "ES256">>, <<"zero">> }
C02c_Cers ==
    { << Cer("client", "mc", [WithDom(BaseCReq, d) EXCEPT !.algs = a, !.chal = ch, !.cdmode = m], BaseEnv) >> :
        d \in DomsOk \cup DomsBad, a \in C02c_AlgLists, ch \in {"c0", "c1", "c32", "c1024"}, m \in {"default", "extra", "hash"} }
    \cup
    \* extra client-data members that serialise to an object without members
    { << Cer("client", "mc", [WithDom(BaseCReq, d) EXCEPT !.cdmode = "extra0"], BaseEnv),
         Cer("client", "ga", [WithDom(BaseCReq, d) EXCEPT !.cdmode = "extra0"], BaseEnv) >> : d \in {DomOk1, DomAnd1} }
    \cup
    { << Cer("client", "mc", [WithDom(BaseCReq, DomOk1) EXCEPT !.user = "u1", !.residentKey = "required"], BaseEnv),
         Cer("client", "mc", [WithDom(BaseCReq, d) EXCEPT !.user = "u2", !.exclude = x, !.excludeGiven = TRUE], BaseEnv),
         Cer("client", "mc", [WithDom(BaseCReq, DomOk1p) EXCEPT !.user = "u2", !.algs = <<>>], BaseEnv) >> :
        d \in {DomOk1, DomOk2, DomEvil}, x \in {<<>>, <<"n1">>, <<"x1">>} }

\* C03 through the client
C03c_Cers ==
    { << Cer("client", "mc", [WithDom(BaseCReq, DomOk1) EXCEPT !.user = "u1", !.residentKey = rk], BaseEnv),
         Cer("client", "mc", [WithDom(BaseCReq, DomOk2) EXCEPT !.user = "u2", !.residentKey = "required"], BaseEnv),
         Cer("client", "ga", [WithDom(BaseCReq, d) EXCEPT !.allow = a, !.allowGiven = g, !.uvreq = u, !.cdmode = m, !.chal = ch],
             [BaseEnv EXCEPT !.uv = UvOk(TRUE, u # "discouraged")]) >> :
        rk \in {"discouraged", "required"}, d \in {DomOk1, DomHost, DomOk2, DomEvil, DomHttp, DomAnd1w, DomAndEvil},
        a \in {<<>>, <<"n1">>, <<"n2">>, <<"x1">>, <<"n2", "n1">>}, g \in BOOLEAN,
        u \in {"required", "discouraged"}, m \in {"default", "extra", "hash", "hash20", "hash64"}, ch \in {"c0", "c32"} }

-----------------------------------------------------------------------------
(* C09: PRF                                                                 *)

C09_Cfgs == { [BaseCfg EXCEPT !.hmac = h, !.mc = mc] : h \in {"off", "uvonly", "withoutuv"}, mc \in BOOLEAN }
C09_Stores == { << <<Cred("c1", "r1", "u1", NoCtr, "both"), Cred("c2", "r1", "u2", NoCtr, "uv"),
                     Cred("c3", "r1", "u2", NoCtr, "none")>> >> }
PrfReq(eval, byCred, given) == [given |-> TRUE, eval |-> eval, byCred |-> byCred, byCredGiven |-> given]
By(id, n) == [id |-> id, n |-> n]
C09_McPrfs == { NoPrfReq, PrfReq("absent", <<>>, FALSE), PrfReq("one", <<>>, FALSE), PrfReq("two", <<>>, FALSE) }
C09_GaPrfs(id) == { NoPrfReq, PrfReq("absent", <<>>, FALSE), PrfReq("one", <<>>, FALSE), PrfReq("two", <<>>, FALSE),
                    PrfReq("one", <<By(id, "two")>>, TRUE), PrfReq("absent", <<By(id, "one")>>, TRUE),
                    PrfReq("two", <<By("x1", "one")>>, TRUE), PrfReq("absent", <<By("x1", "one")>>, TRUE),
                    PrfReq("one", <<>>, TRUE), PrfReq("one", <<By("x1", "two"), By(id, "one")>>, TRUE) }
C09_Cers ==
    { << Cer("ctap2", "mc", [BaseReq EXCEPT !.prf = p, !.hs = hs, !.uv = uv, !.user = "u3"],
             [BaseEnv EXCEPT !.uv = UvOk(TRUE, v)]),
         Cer("ctap2", "ga", [BaseReq EXCEPT !.allow = <<"n1">>, !.allowGiven = TRUE, !.prf = PrfReq("two", <<>>, FALSE), !.uv = uv2],
             [BaseEnv EXCEPT !.uv = UvOk(TRUE, uv2)]) >> :
        p \in C09_McPrfs, hs \in {"absent", "true", "false"}, uv \in BOOLEAN, v \in BOOLEAN, uv2 \in BOOLEAN }
    \cup
    { << Cer("ctap2", "ga", [BaseReq EXCEPT !.allow = <<id>>, !.allowGiven = TRUE, !.prf = p, !.uv = uv],
             [BaseEnv EXCEPT !.uv = UvOk(TRUE, v)]) >> :
        id \in {"c1", "c2", "c3"}, p \in C09_GaPrfs("c1") \cup C09_GaPrfs("c2"), uv \in BOOLEAN, v \in BOOLEAN }

\* client level: hashing, precedence of prf over prfAlreadyHashed, validation
Cprf(kind, eval, byCred, given, badlen) == [kind |-> kind, eval |-> eval, byCred |-> byCred, byCredGiven |-> given, badlen |-> badlen]
C09c_RegPrfs ==
    { Cprf(k, e, <<>>, FALSE, b) : k \in {"prf", "hashed", "both"}, e \in {"absent", "one", "two"}, b \in BOOLEAN }
    \cup { Cprf(k, "one", <<By("c1", "one")>>, TRUE, FALSE) : k \in {"prf", "hashed", "both"} }
    \cup { Cprf(k, "one", <<>>, TRUE, FALSE) : k \in {"prf", "hashed"} }
C09c_AuthPrfs ==
    { Cprf(k, e, bc, g, b) : k \in {"prf", "hashed", "both"}, e \in {"absent", "one", "two"}, b \in BOOLEAN,
        bc \in {<<>>}, g \in BOOLEAN }
    \cup
    { Cprf(k, e, bc, TRUE, b) : k \in {"prf", "hashed"}, e \in {"absent", "one"}, b \in BOOLEAN,
        bc \in { <<By("c1", "two")>>, <<By("c2", "one")>>, <<By("x1", "one")>>, <<By("k:empty", "one")>>,
                 <<By("k:bad64", "one")>>, <<By("c1", "one"), By("c2", "two")>> } }
C09c_Cfgs == { [BaseCfg EXCEPT !.hmac = h, !.mc = TRUE] : h \in {"off", "uvonly", "withoutuv"} }
C09c_Cers ==
    { << Cer("client", "mc", [WithCprf(BaseCReq, c) EXCEPT !.uvreq = u, !.user = "u3"], [BaseEnv EXCEPT !.uv = UvOk(TRUE, u # "discouraged")]) >> :
        c \in C09c_RegPrfs, u \in {"required", "discouraged"} }
    \cup
    { << Cer("client", "ga", [WithCprf(BaseCReq, c) EXCEPT !.uvreq = u, !.allow = a, !.allowGiven = (a # <<"none">>)],
             [BaseEnv EXCEPT !.uv = UvOk(TRUE, u # "discouraged")]) >> :
        c \in C09c_AuthPrfs, u \in {"required", "discouraged"}, a \in { <<"c1">>, <<"c2", "c1">>, <<>> } }
    \cup
    { << Cer("client", "ga", [WithCprf(BaseCReq, c) EXCEPT !.allowGiven = FALSE], BaseEnv) >> : c \in C09c_AuthPrfs }

\* C07 through the client: every attestation preference, faults at the save, cancellation at each gate
C07c_Cers ==
    { << Cer("client", "mc", [BaseCReq EXCEPT !.user = "u3", !.att = a, !.residentKey = "required", !.credProps = "true"],
             [BaseEnv EXCEPT !.faults = f, !.cancelAt = k]) >> :
        a \in {"absent", "none", "indirect", "direct", "enterprise"}, f \in {<<0, 0, 0>>, <<40, 0, 0>>}, k \in -1..7 }
    \cup
    { << Cer("client", "ga", [BaseCReq EXCEPT !.allow = a, !.allowGiven = a # <<>>], [BaseEnv EXCEPT !.faults = f, !.cancelAt = k]) >> :
        a \in {<<>>, <<"c1">>}, f \in {<<0, 0, 0>>, <<0, 40, 0>>, <<1, 0, 0>>}, k \in -1..5 }

\* descriptors whose credential type the library does not know, through the client: the allow / exclude list means
\* the same (a list that matches nothing does not fall back to "any credential")
C03c_UnkCers ==
    { << Cer("client", "mc", [WithDom(BaseCReq, DomOk1) EXCEPT !.user = "u1", !.residentKey = rk], BaseEnv),
         Cer("client", "mc", [WithDom(BaseCReq, DomOk2) EXCEPT !.user = "u2", !.residentKey = "required"], BaseEnv),
         Cer("client", "ga", [WithDom(BaseCReq, DomOk1) EXCEPT !.allow = a, !.allowGiven = TRUE, !.unkType = TRUE], BaseEnv) >> :
        rk \in {"discouraged", "required"}, a \in {<<"x1">>, <<"n1">>, <<"n2">>, <<"n2", "n1">>, <<"x1", "x2">>} }
C02c_UnkCers ==
    { << Cer("client", "mc", [WithDom(BaseCReq, DomOk1) EXCEPT !.user = "u1", !.residentKey = "required"], BaseEnv),
         Cer("client", "mc", [WithDom(BaseCReq, d) EXCEPT !.user = "u2", !.exclude = x, !.excludeGiven = TRUE, !.unkType = TRUE], BaseEnv) >> :
        d \in {DomOk1, DomOk2}, x \in {<<"n1">>, <<"x1">>, <<"x1", "n1">>} }

\* C08 through the client: one ceremony moves the counter by exactly one - also when the authenticator refuses the
\* first thing the client asks of it (gated secret only, verification discouraged, PRF requested)
C08c_Cfgs == { [BaseCfg EXCEPT !.hmac = h] : h \in {"uvonly", "withoutuv"} }
C08c_Stores == { << <<Cred("c1", "r1", "u1", Ctr(0, 4), hm), Cred("c2", "r1", "u2", NoCtr, hm)>> >> : hm \in {"uv", "both", "none"} }
C08c_Cers ==
    { << Cer("client", "ga", [WithCprf(BaseCReq, c) EXCEPT !.uvreq = u, !.allow = <<id>>, !.allowGiven = TRUE],
             [BaseEnv EXCEPT !.uv = a]),
         Cer("client", "ga", [BaseCReq EXCEPT !.allow = <<id>>, !.allowGiven = TRUE], BaseEnv) >> :
        c \in {NoCprf, [kind |-> "prf", eval |-> "one", byCred |-> <<>>, byCredGiven |-> FALSE, badlen |-> FALSE]},
        u \in {"required", "discouraged"}, a \in {UvOk(TRUE, TRUE), UvOk(TRUE, FALSE), UvAsked}, id \in {"c1", "c2"} }

\* reduced client configurations for the quick tier
C03cq_Cers == { c \in C03c_Cers : c[3].req.chal = "c32" /\ c[3].req.cdmode # "extra" /\ c[1].req.residentKey = "required" } \cup C03c_UnkCers
C02cq_Cers == { c \in C02c_Cers : Len(c) = 3 \/ c[1].req.chal \in {"c0", "c32"} } \cup C02c_UnkCers
C03ct_Cers == C03c_Cers \cup C03c_UnkCers
C02ct_Cers == C02c_Cers \cup C02c_UnkCers

-----------------------------------------------------------------------------
(* C18: getInfo through both APIs                                           *)
C18i_Cfgs == { [BaseCfg EXCEPT !.hmac = h, !.uvCap = u, !.upCap = p, !.disc = d, !.tr = t] :
                 h \in {"off", "uvonly"}, u \in {"none", "unconfigured", "configured"}, p \in BOOLEAN,
                 d \in {"full", "nondisc", "forced"}, t \in {"default", "empty", "usb"} }
\* C14: what the client emits when the authenticator has the default transports, none, or one
C14e_Cfgs == { [BaseCfg EXCEPT !.tr = t, !.hmac = h, !.mc = TRUE] : t \in {"default", "empty", "usb"}, h \in {"off", "withoutuv"} }
C18i_Cers == { << Cer("ctap2", "info", BaseReq, [BaseEnv EXCEPT !.cancelAt = k]) >> : k \in {-1, 0, 1} }
              \* the state of the authenticator includes what its environment reports now: capabilities asked before
              \* and after the user enrols / the store changes its support
              \cup { << Cer("ctap2", "info", BaseReq, BaseEnv), Env(u, p, d), Cer("ctap2", "info", BaseReq, BaseEnv),
                        Cer("ctap2", "mc", [BaseReq EXCEPT !.rk = TRUE, !.uv = TRUE], BaseEnv) >> :
                      u \in {"none", "unconfigured", "configured"}, p \in BOOLEAN, d \in {"full", "nondisc", "forced"} }

-----------------------------------------------------------------------------
(* C17: U2F histories over two applications and key handles of several lengths *)
U2fReq(app, handle, ctr, presence) ==
    BaseReq @@ [handle |-> handle, counter |-> ctr, presence |-> presence, ctl |-> "enforce"] 
U2fR(app, handle, ctr, presence) == [U2fReq(app, handle, ctr, presence) EXCEPT !.rp = app]
Handles == {"k0", "k1", "k32", "k255"}
U2fReg(a, h) == Cer("u2f", "reg", U2fR(a, h, Ctr(0, 0), <<>>), BaseEnv)
U2fAuth(a, h, c, p) == Cer("u2f", "auth", U2fR(a, h, c, p), BaseEnv)
U2fAuthCtl(a, h, c, p, ctl) == Cer("u2f", "auth", [U2fR(a, h, c, p) EXCEPT !.ctl = ctl], BaseEnv)
\* every control byte with every presence value
C17_CtlCers ==
    { << U2fReg("a1", "k32"), U2fAuthCtl("a1", "k32", Ctr(0, 7), p, ctl), U2fAuthCtl("a1", "k1", Ctr(0, 7), p, ctl) >> :
        ctl \in {"enforce", "check", "dont"}, p \in {<<>>, <<"UP">>, <<"UV">>, <<"UP", "UV">>} }
C17_Cfgs == { BaseCfg, [BaseCfg EXCEPT !.storeKind = "slot", !.disc = "forced"] }
C17_Stores == { << <<>> >> }
C17_Cers ==
    { << U2fReg(a1, h1), U2fAuth(a2, h2, c, p), U2fReg(a2, h2), U2fAuth(a2, h2, c, p), U2fAuth(a1, h1, Ctr(0, 1), <<"UP">>) >> :
        a1 \in {"a1"}, a2 \in {"a1", "a2"}, h1 \in Handles, h2 \in Handles,
        c \in {Ctr(0, 0), Ctr(0, 1), Ctr(65535, 65535)},
        \* the caller chooses the presence byte: any flag bits, not only UP / UV
        p \in {<<>>, <<"UP">>, <<"UP", "UV">>, <<"UP", "BE", "BS">>, <<"UV", "AT", "ED">>} }
    \cup C17_CtlCers

-----------------------------------------------------------------------------
(* C13: every status byte as a store fault under the client                 *)
C13_Cfgs == { [BaseCfg EXCEPT !.disc = d] : d \in {"full", "nondisc", "forced"} }
C13_Cers ==
    { << Cer("client", "ga", BaseCReq, [BaseEnv EXCEPT !.faults = <<b, 0, 0>>]) >> : b \in 1..255 } \cup
    { << Cer("client", "mc", BaseCReq, [BaseEnv EXCEPT !.faults = <<b, 0, 0>>]) >> : b \in 1..255 }

\* C18: every status byte a store can fail with, at every fallible call, through both APIs
C18s_Cers ==
    { << Cer("ctap2", "ga", [BaseReq EXCEPT !.allow = <<"c1">>, !.allowGiven = TRUE], [BaseEnv EXCEPT !.faults = f]) >> :
        f \in { <<b, 0, 0>> : b \in 1..255 } \cup { <<0, b, 0>> : b \in 1..255 } }
    \cup
    { << Cer("ctap2", "mc", [BaseReq EXCEPT !.user = "u3"], [BaseEnv EXCEPT !.faults = <<b, 0, 0>>]) >> : b \in 1..255 }
    \cup
    \* client-data hashes of any length (the API takes bytes): empty, shorter than a word, SHA-1 / SHA-512 sized
    { << Cer("ctap2", "mc", [BaseReq EXCEPT !.user = "u3", !.cdh = h], BaseEnv),
         Cer("ctap2", "ga", [BaseReq EXCEPT !.allow = <<"c1">>, !.allowGiven = TRUE, !.cdh = h], BaseEnv) >> :
        h \in {"h0", "h3", "h20", "h64"} }

\* C18: "an authenticator in the same state" includes what earlier commands left behind: a command that was abandoned
\* while suspended (the caller dropped it at gate k), or that failed at a store call, followed by further commands
C18a_First ==
    { Cer("ctap2", "mc", [BaseReq EXCEPT !.user = "u3"], [BaseEnv EXCEPT !.cancelAt = k]) : k \in 0..3 }
    \cup { Cer("ctap2", "ga", [BaseReq EXCEPT !.allow = <<"c1">>, !.allowGiven = TRUE], [BaseEnv EXCEPT !.cancelAt = k]) : k \in 0..3 }
    \cup { Cer("ctap2", "mc", [BaseReq EXCEPT !.user = "u3"], [BaseEnv EXCEPT !.faults = f]) : f \in {<<1, 0, 0>>, <<0, 40, 0>>} }
    \cup { Cer("ctap2", "ga", BaseReq, [BaseEnv EXCEPT !.faults = f]) : f \in {<<40, 0, 0>>, <<0, 1, 0>>} }
    \cup { Cer("ctap2", "info", BaseReq, [BaseEnv EXCEPT !.cancelAt = 0]) }
C18a_Cers ==
    { << a, Cer("ctap2", "mc", [BaseReq EXCEPT !.user = "u3", !.rk = TRUE], BaseEnv), Cer("ctap2", "ga", BaseReq, BaseEnv),
         Cer("ctap2", "info", BaseReq, BaseEnv) >> : a \in C18a_First }
    \cup { << a, b, Cer("ctap2", "ga", BaseReq, BaseEnv) >> : a \in C18a_First, b \in C18a_First }

\* credentials made under one authenticator configuration and used under another one (C06 C08 C09)
Rb_Cfgs == { [BaseCfg EXCEPT !.hmac = h, !.mc = TRUE, !.idLen = n, !.counterOn = c, !.uvCap = "configured"] :
               h \in {"uvonly", "withoutuv"}, n \in {16, 32}, c \in BOOLEAN }
Rb_Stores == { << <<>> >> }
Rb_Cers ==
    { << Cer("ctap2", "mc", [BaseReq EXCEPT !.user = "u3", !.rk = TRUE, !.uv = TRUE, !.prf = PrfOne], BaseEnv),
         Rebuild(h, n, c),
         Cer("ctap2", "ga", [BaseReq EXCEPT !.uv = uv, !.prf = p], BaseEnv),
         Cer("ctap2", "mc", [BaseReq EXCEPT !.user = "u1", !.rk = TRUE, !.prf = PrfOne], BaseEnv),
         Cer("ctap2", "ga", [BaseReq EXCEPT !.uv = ~uv, !.prf = p], BaseEnv) >> :
        h \in {"off", "uvonly", "withoutuv"}, n \in {16, 64}, c \in BOOLEAN, uv \in BOOLEAN,
        p \in {PrfOne, [PrfOne EXCEPT !.eval = "two"]} }

C14e_Cers ==
    { << Cer("client", "mc", [WithCprf(BaseCReq, c) EXCEPT !.user = "u1", !.residentKey = rk, !.credProps = cp], BaseEnv),
         Cer("client", "ga", [WithCprf(BaseCReq, c) EXCEPT !.allow = a, !.allowGiven = a # <<>>], BaseEnv) >> :
        rk \in {"discouraged", "required"}, cp \in {"absent", "true"}, a \in {<<>>, <<"n1">>},
        c \in {NoCprf, Cprf("prf", "two", <<>>, FALSE, FALSE)} }

\* a store that fails with the status byte 0x00 ("success" used as an error value): fault value 256.  Layer B does not
\* model that byte as an error (its pending-error fields use 0 for "none"), so these runs drift; layer A judges them.
C07z_Cers ==
    { << Cer("ctap2", "mc", [BaseReq EXCEPT !.user = "u3"], [BaseEnv EXCEPT !.faults = <<256, 0, 0>>]) >>,
      << Cer("ctap2", "ga", [BaseReq EXCEPT !.allow = <<"c1">>, !.allowGiven = TRUE], [BaseEnv EXCEPT !.faults = <<0, 256, 0>>]) >>,
      << Cer("ctap2", "ga", [BaseReq EXCEPT !.allow = <<"c1">>, !.allowGiven = TRUE], [BaseEnv EXCEPT !.faults = <<256, 0, 0>>]) >>,
      << Cer("client", "mc", [BaseCReq EXCEPT !.user = "u3"], [BaseEnv EXCEPT !.faults = <<256, 0, 0>>]) >>,
      << Cer("client", "ga", [BaseCReq EXCEPT !.allow = <<"c1">>, !.allowGiven = TRUE], [BaseEnv EXCEPT !.faults = <<0, 256, 0>>]) >>,
      << Cer("u2f", "reg", [U2fR("a1", "k32", Ctr(0, 0), <<>>) EXCEPT !.rp = "a1"], [BaseEnv EXCEPT !.faults = <<256, 0, 0>>]) >>,
      << U2fReg("a1", "k32"), Cer("u2f", "auth", U2fR("a1", "k32", Ctr(0, 3), <<"UP">>), [BaseEnv EXCEPT !.faults = <<256, 0, 0>>]) >> }

=============================================================================
