-------------------------------- MODULE CerMC --------------------------------
(***************************************************************************)
(* Model checking of the ceremonies (layer B, Ceremony!Step) against the   *)
(* listed properties (layer A, CerProps!Violated), and export of every     *)
(* explored behaviour for replay on the real code.                         *)
(*                                                                         *)
(* A behaviour: a plan [cfg, stores, cers] is chosen initially; the        *)
(* ceremonies `cers` are run in order against stores[1], then (Reset)      *)
(* against stores[2], ... - consecutive runs that differ only in the store *)
(* content are what the non-interference clause of C04 compares.           *)
(* The sets Cfgs / Stores / Cers are bound per configuration file.              *)
(***************************************************************************)
EXTENDS Naturals, Integers, Sequences, FiniteSets, TLC, Json

CONSTANTS Cfgs,        \* set of authenticator/store configurations
          StoreLists,  \* set of sequences of initial stores
          CerLists,    \* set of sequences of ceremony descriptors [api, op, req, env]
          Known,       \* invariant names exempted (known findings), checked to be reachable separately
          Export

C == INSTANCE Ceremony
P == INSTANCE CerProps

VARIABLES plan, run, idx, st, obs, phase
vars == <<plan, run, idx, st, obs, phase>>

Idle == [api |-> "none", done |-> TRUE]

ResetEv == [ev |-> "Reset", run |-> run, cfg |-> plan.cfg, store |-> plan.stores[run]]

Init ==
    /\ plan \in [cfg : Cfgs, stores : StoreLists, cers : CerLists]
    /\ run = 1
    /\ idx = 0
    /\ st = [store |-> plan.stores[1], nnew |-> 0, cer |-> Idle]
    /\ obs = P!Observe(P!NoObs, [ev |-> "Reset", run |-> 1, cfg |-> plan.cfg, store |-> plan.stores[1]])
    /\ phase = "idle"

\* begin the next ceremony of the run
Begin ==
    /\ phase = "idle" /\ idx < Len(plan.cers)
    /\ LET c == plan.cers[idx + 1] IN
       /\ st' = [st EXCEPT !.cer = C!NewCer(c.api, c.op, c.req, c.env)]
       /\ obs' = P!Observe(obs, [ev |-> "Begin", d |-> [api |-> c.api, op |-> c.op, req |-> c.req, env |-> c.env]])
    /\ idx' = idx + 1
    /\ phase' = "running"
    /\ UNCHANGED <<plan, run>>

\* one step of the ceremony in progress: a trait call or the result
StepCer ==
    /\ phase = "running" /\ ~st.cer.done
    /\ LET r == C!Step(plan.cfg, st.cer, st.store, st.nnew) IN
       /\ st' = [store |-> r.store, nnew |-> r.nnew, cer |-> r.cer]
       /\ obs' = P!Observe(obs, r.ev)
    /\ UNCHANGED <<plan, run, idx, phase>>

\* the ceremony is over: the store as the next ceremony will find it
Snap ==
    /\ phase = "running" /\ st.cer.done
    /\ obs' = P!Observe(obs, [ev |-> "Snap", d |-> [snap |-> st.store, nnew |-> st.nnew]])
    /\ phase' = "idle"
    /\ UNCHANGED <<plan, run, idx, st>>

\* next run: same ceremonies against the next initial store
NextRun ==
    /\ phase = "idle" /\ idx = Len(plan.cers) /\ run < Len(plan.stores)
    /\ run' = run + 1
    /\ idx' = 0
    /\ st' = [store |-> plan.stores[run + 1], nnew |-> 0, cer |-> Idle]
    /\ obs' = P!Observe(obs, [ev |-> "Reset", run |-> run + 1, cfg |-> plan.cfg, store |-> plan.stores[run + 1]])
    /\ UNCHANGED <<plan, phase>>

Next == Begin \/ StepCer \/ Snap \/ NextRun
Spec == Init /\ [][Next]_vars

Done == phase = "idle" /\ idx = Len(plan.cers) /\ run = Len(plan.stores)

\* Layer A on the model
PropertiesHold == P!Violated(obs) \subseteq Known

ExportInv == (Export /\ Done) => PrintT(<<"REPLAY", ToJson(plan)>>)

-----------------------------------------------------------------------------
(* building blocks for the configurations                                   *)

Ctr(h, l) == [hi |-> h, lo |-> l]
NoCtr == [hi |-> -1, lo |-> 0]
Cred(id, rp, user, ctr, hm) == [id |-> id, rp |-> rp, user |-> user, ctr |-> ctr, hm |-> hm]

BaseCfg == [uvCap |-> "configured", upCap |-> TRUE, counterOn |-> TRUE, idLen |-> 16, hmac |-> "off", mc |-> FALSE,
            storeKind |-> "reference", disc |-> "full", emptyAsErr |-> FALSE]

NoPrfReq == [given |-> FALSE, eval |-> "absent", byCred |-> <<>>, byCredGiven |-> FALSE]
BaseReq == [rp |-> "r1", user |-> "u1", algs |-> <<"ES256">>, exclude |-> <<>>, excludeGiven |-> FALSE,
            allow |-> <<>>, allowGiven |-> FALSE, rk |-> FALSE, up |-> TRUE, uv |-> FALSE, pinAuth |-> FALSE,
            hs |-> "absent", prf |-> NoPrfReq, cdh |-> "h1"]

UvOk(p, v) == [kind |-> "ok", pres |-> p, verif |-> v, err |-> 0]
UvErr(code) == [kind |-> "err", pres |-> FALSE, verif |-> FALSE, err |-> code]
BaseEnv == [uv |-> UvOk(TRUE, TRUE), faults |-> <<0, 0, 0>>, cancelAt |-> -1]

Cer(api, op, req, env) == [api |-> api, op |-> op, req |-> req, env |-> env]

-----------------------------------------------------------------------------
(* C04: the complete product                                                *)

C04_Cfgs == { [BaseCfg EXCEPT !.uvCap = u, !.upCap = p] : u \in {"none", "unconfigured", "configured"}, p \in BOOLEAN }
C04_Stores == { << <<>>, <<Cred("c1", "r1", "u1", Ctr(0, 7), "none")>> >> }
C04_Answers == { UvOk(p, v) : p \in BOOLEAN, v \in BOOLEAN } \cup { UvErr(39), UvErr(47) }
C04_Cers ==
    { << Cer("ctap2", op, [BaseReq EXCEPT !.rk = rk, !.up = up, !.uv = uv, !.pinAuth = pin],
             [BaseEnv EXCEPT !.uv = a]) >> :
        op \in {"mc", "ga"}, rk \in BOOLEAN, up \in BOOLEAN, uv \in BOOLEAN, pin \in BOOLEAN, a \in C04_Answers }

=============================================================================
