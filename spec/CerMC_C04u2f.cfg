CONSTANTS
  Cfgs <- C17_Cfgs
  StoreLists <- C17_Stores
  CerLists <- C17_CtlCers
  Known = {}
  Export = TRUE
SPECIFICATION Spec
INVARIANT PropertiesHold
INVARIANT ExportInv
CHECK_DEADLOCK FALSE
