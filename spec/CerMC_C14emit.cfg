CONSTANTS
  Cfgs <- C14e_Cfgs
  StoreLists <- C11_Stores
  CerLists <- C14e_Cers
  Known = {}
  Export = TRUE
SPECIFICATION Spec
INVARIANT PropertiesHold
INVARIANT ExportInv
CHECK_DEADLOCK FALSE
