-------------------------------- MODULE RpId --------------------------------
(***************************************************************************)
(* RP-ID binding (C01): which (origin, RP ID) pairs may be accepted        *)
(* (layer A, `Admissible`) and what RpIdVerifier::assert_domain returns    *)
(* (layer B, `Coded`), over names represented as sequences of labels.      *)
(*                                                                         *)
(* A case e (recorded by `pkverif rpid`):                                  *)
(*   kind      "web" | "android"                                           *)
(*   schemelc  the URL scheme, lower-cased (web)                           *)
(*   hostkind  "domain" | "ipv4" | "ipv6" | "none"   (web: url::Host)      *)
(*   host      labels of the origin host / asset-link host                 *)
(*   rpgiven, rp   the RP ID as supplied                                   *)
(*   flag      insecure localhost explicitly enabled                       *)
(*   provider  "default" (shipped list) | "custom" (tiny list)             *)
(*   cok, ceff canonical (lower-case punycode) form of the effective RP ID *)
(*             as computed by idna::domain_to_ascii, and whether it exists *)
(*   charsuffix, rpdot   host.ends_with(rp) at character level; rp begins  *)
(*             with "." (layer B only)                                     *)
(*   res, out  the result: "ok" + returned name, or the error name         *)
(***************************************************************************)
EXTENDS Psl

Eff(e) == IF e.rpgiven THEN e.rp ELSE e.host

Localhost == <<"localhost">>

\* Layer A ----------------------------------------------------------------
\* (N, W, E) are the rule sets of the provider the verifier was built with.
Admissible(N, W, E, e) ==
    /\ e.hostkind = "domain"
    /\ IsSuffix(Eff(e), e.host)               \* equal, or a suffix starting at a label boundary
    /\ \/ Eff(e) = Localhost /\ e.flag        \* the only exception
       \/ /\ Eff(e) # Localhost
          /\ (e.kind = "web" => e.schemelc = "https")
          /\ ~HasEmptyLabel(Eff(e))
          /\ e.cok
          /\ Registrable(N, W, E, e.ceff)      \* not a public suffix

Sound(N, W, E, e) ==
    /\ ~e.crash
    /\ e.res = "ok" => Admissible(N, W, E, e) /\ e.out = Eff(e)

\* Layer B ----------------------------------------------------------------
\* the code's check order: domain, suffix, localhost gate, registrable, scheme
CodedSuffix(e) == e.charsuffix /\ (IsSuffix(e.rp, e.host) \/ e.rpdot)

Coded(N, W, E, e) ==
    IF e.kind = "web" /\ e.hostkind # "domain" THEN "OriginMissingDomain"
    ELSE IF e.rpgiven /\ ~CodedSuffix(e) THEN "OriginRpMissmatch"
    ELSE IF e.kind \in {"web", "valid"} /\ Eff(e) = Localhost
         THEN IF e.flag THEN "ok" ELSE "InsecureLocalhostNotAllowed"
    ELSE IF ~(e.cok /\ ~HasEmptyLabel(e.ceff) /\ Registrable(N, W, E, e.ceff)) THEN "InvalidRpId"
    ELSE IF e.kind = "web" /\ e.schemelc # "https" THEN "UnprotectedOrigin"
    ELSE "ok"

\* The tiny list of the custom provider used by the harness
CustomN == { <<"test">>, <<"co", "test">> }
CustomW == { <<"wild", "test">> }
CustomE == { <<"ok", "wild", "test">> }

\* The abstract case space enumerated by TLC and concretised by the harness
Kinds     == {"web", "android"}
Schemes   == {"https", "HTTPS", "http", "wss", "ftp"}
Ports     == {"none", "8443"}
HostShapes == {"multi", "reg", "suffix", "single", "localhost", "sublocalhost", "evilreg",
               "ipv4", "ipv6", "trailingdot", "upper"}
RpRels    == {"absent", "equal", "parent", "reg", "suffix", "tld", "charsuffix", "unrelated", "empty",
              "leadingdot", "trailingdot", "localhost", "unicode", "upper"}
Flags     == {TRUE, FALSE}
Providers == {"default", "custom"}

Cases ==
    { c \in [kind : Kinds, scheme : Schemes, port : Ports, host : HostShapes, rp : RpRels,
             flag : Flags, provider : Providers] :
        /\ (c.kind = "android" => c.scheme = "https" /\ c.port = "none" /\ c.host \notin {"ipv4", "ipv6"})
        /\ (c.kind = "web" => c.host # "upper")          \* url lower-cases web hosts
        /\ (c.port # "none" => c.scheme \in {"https", "http"}) }
=============================================================================
