CONSTANTS
  Cfgs <- C19_Cfgs
  Stores <- C19_Stores
  CerSets <- C19_Pairs
  PlanOk <- C19_PlanOk
  Lock = "mutex"
  Known = {}
  Export = FALSE
SPECIFICATION Spec
INVARIANT PropertiesHold
INVARIANT NoDeadlock
INVARIANT ExportInv
CHECK_DEADLOCK FALSE
