CONSTANTS
  Cfgs <- C08c_Cfgs
  StoreLists <- C08c_Stores
  CerLists <- C08c_Cers
  Known = {}
  Export = TRUE
SPECIFICATION Spec
INVARIANT PropertiesHold
INVARIANT ExportInv
CHECK_DEADLOCK FALSE
