CONSTANTS
  Cfgs <- C02_Cfgs
  StoreLists <- C02_Stores
  CerLists <- C02_Cers
  Known = {}
  Export = TRUE
SPECIFICATION Spec
INVARIANT PropertiesHold
INVARIANT ExportInv
CHECK_DEADLOCK FALSE
