------------------------------ MODULE JsonCodec ------------------------------
(***************************************************************************)
(* C14: lenient parsing of WebAuthn request options, base64url as an       *)
(* executable definition, and the key order of collected client data.      *)
(*                                                                         *)
(* Cases: how each kind of member is PRESENTED in the JSON document        *)
(*   bin      binary members: byte array | base64url | base64url padded |  *)
(*            base64 | base64 padded                                       *)
(*   timeout  absent | number | numeric string | integral float            *)
(*   alg      algorithm identifiers: number | numeric string | float       *)
(*   enum     an unknown string in one enumeration-valued place            *)
(*   member   an unknown member injected at one nesting level              *)
(*   opt      which optional members are present                           *)
(*   order    member order inside list entries: natural | reversed         *)
(* The document so presented must parse to the same value as the canonical *)
(* one (arrays, numbers, known strings only; unknown parts left out).      *)
(***************************************************************************)
EXTENDS Naturals, Integers, Sequences, FiniteSets, TLC, Json, IOUtils

Bins == {"array", "b64url", "b64url-pad", "b64", "b64-pad"}
Timeouts == {"absent", "number", "string", "float"}
Algs == {"number", "string", "float"}
Enums == {"none", "attestation", "userVerification", "attachment", "residentKey", "transport", "hint", "credType", "algValue", "attFormat",
          "onlyUnknown"}      \* every list holds nothing but unknown entries: it must parse like the empty list, present and empty
MembersAt == {"none", "top", "rp", "user", "selection", "descriptor", "extensions", "params"}
Opts == {"none", "all", "lists", "selection"}
\* order: the members of every list entry (descriptor, parameter) in natural or in reversed order - the entry that
\* has to be dropped then has its offending member first instead of last
Cases == [req : {"create", "get"}, bin : Bins, timeout : Timeouts, alg : Algs, enum : Enums, member : MembersAt, opt : Opts,
          order : {"natural"}]
         \cup
         [req : {"create", "get"}, bin : {"array", "b64url"}, timeout : {"absent"}, alg : {"number", "string"}, enum : Enums,
          member : MembersAt, opt : Opts, order : {"rev"}]

JudgeParse(e) == ~e.crash /\ e.parse = "ok" /\ e.same

\* ---- base64url, executable --------------------------------------------------------------------
Alphabet == <<"A","B","C","D","E","F","G","H","I","J","K","L","M","N","O","P","Q","R","S","T","U","V","W","X","Y","Z",
              "a","b","c","d","e","f","g","h","i","j","k","l","m","n","o","p","q","r","s","t","u","v","w","x","y","z",
              "0","1","2","3","4","5","6","7","8","9","-","_">>
Char(i) == Alphabet[i + 1]
\* the characters encoding the group of 1..3 bytes starting at position p (1-based) of b
Group(b, p) ==
    LET n == Len(b) - p + 1
        b1 == b[p]
        b2 == IF n >= 2 THEN b[p + 1] ELSE 0
        b3 == IF n >= 3 THEN b[p + 2] ELSE 0
        c1 == b1 \div 4
        c2 == (b1 % 4) * 16 + b2 \div 16
        c3 == (b2 % 16) * 4 + b3 \div 64
        c4 == b3 % 64
    IN IF n >= 3 THEN <<Char(c1), Char(c2), Char(c3), Char(c4)>>
       ELSE IF n = 2 THEN <<Char(c1), Char(c2), Char(c3)>>
       ELSE <<Char(c1), Char(c2)>>
RECURSIVE EncodeFrom(_, _)
EncodeFrom(b, p) == IF p > Len(b) THEN <<>> ELSE Group(b, p) \o EncodeFrom(b, p + 3)
Base64Url(b) == EncodeFrom(b, 1)

JudgeB64(e) == ~e.crash /\ e.decok /\ e.ownok /\ (e.bytes # <<>> \/ e.small => e.enc = Base64Url(e.bytes))

\* ---- collected client data: type, challenge, origin, crossOrigin, then extras, then unknown members
JudgeClientData(e) == ~e.crash /\ e.got = <<"type", "challenge", "origin", "crossOrigin">> \o e.extra \o e.unknown /\ e.valuesok

Judge(e) ==
    CASE e.kind = "parse" -> JudgeParse(e)
      [] e.kind = "b64" -> JudgeB64(e)
      [] e.kind = "cd" -> JudgeClientData(e)

Rec == IF "TRACE" \in DOMAIN IOEnv THEN ndJsonDeserialize(IOEnv.TRACE) ELSE <<>>
VARIABLE done
Init == done = FALSE
Next == /\ ~done
        /\ IF "TRACE" \in DOMAIN IOEnv
           THEN PrintT(<<"RESULT", ToJson([events |-> Len(Rec), viol |-> { i \in 1..Len(Rec) : ~Judge(Rec[i]) }])>>)
           ELSE PrintT(<<"CASES", ToJson(Cases)>>)
        /\ done' = TRUE
Spec == Init /\ [][Next]_done
=============================================================================
