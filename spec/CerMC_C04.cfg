\* C04: op x (rk, up, uv) x uvCap x upCap x user-validation outcome (4 + 2 errors) x pinAuth x store content
CONSTANTS
  Cfgs <- C04_Cfgs
  StoreLists <- C04_Stores
  CerLists <- C04_Cers
  Known = {}
  Export = TRUE
SPECIFICATION Spec
INVARIANT PropertiesHold
INVARIANT ExportInv
CHECK_DEADLOCK FALSE
