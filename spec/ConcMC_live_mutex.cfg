CONSTANTS
  Cfgs <- C19_Cfgs
  Stores <- C19_Stores
  CerSets <- C19_Pairs
  PlanOk <- C19_PlanOk
  Lock = "mutex"
  Known = {"C19.DistinctCounters.StaleUpdate", "C19.LargestIsStored.StaleUpdate"}
  Export = FALSE
SPECIFICATION FairSpec
INVARIANT PropertiesHold
INVARIANT NoDeadlock
PROPERTY Termination
CHECK_DEADLOCK FALSE
