CONSTANTS
  Cfgs <- C08_Cfgs
  StoreLists <- C08_Stores
  CerLists <- C08_Cers
  Known = {}
  Export = TRUE
SPECIFICATION Spec
INVARIANT PropertiesHold
INVARIANT ExportInv
CHECK_DEADLOCK FALSE
