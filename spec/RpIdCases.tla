----------------------------- MODULE RpIdCases -----------------------------
(* Prints the abstract case space of C01 for the harness to concretise.    *)
EXTENDS RpId, TLC, Json
VARIABLE done
Init == done = FALSE
Next == /\ ~done
        /\ PrintT(<<"CASES", ToJson(Cases)>>)
        /\ done' = TRUE
Spec == Init /\ [][Next]_done
=============================================================================
