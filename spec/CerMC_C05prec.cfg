CONSTANTS
  Cfgs <- C05_PrecCfgs
  StoreLists <- C05_PrecStores
  CerLists <- C05_PrecCers
  Known = {}
  Export = TRUE
SPECIFICATION Spec
INVARIANT PropertiesHold
INVARIANT ExportInv
CHECK_DEADLOCK FALSE
