CONSTANTS
  Cfgs <- C11_Cfgs
  StoreLists <- C11_Stores
  CerLists <- C11c_Cers
  Known = {}
  Export = FALSE
SPECIFICATION FairSpec
INVARIANT PropertiesHold
PROPERTY Termination
CHECK_DEADLOCK FALSE
