\* behaviour export: 2 channels, up to three messages each, any of which may be abandoned after its first or second packet
CONSTANTS
  InitCap = 57
  ContCap = 59
  MaxCont = 128
  Channels = {1, 2}
  Strays = {}
  Lens = {57, 175}
  Cmds = {1}
  MaxMsgs = 3
  Cuts = {0, 1, 2}
  MaxPkts = 4
  Export = TRUE
SPECIFICATION Spec
INVARIANT ExportInv
INVARIANT ExactlyOnceInOrder
INVARIANT NoCrossTalk
CHECK_DEADLOCK FALSE
