\* thorough: two channels with up to two messages each (two command values), a stray, all small lengths
CONSTANTS
  InitCap = 2
  ContCap = 3
  MaxCont = 3
  Channels = {1, 2}
  Strays = {9}
  Lens = {0,1,2,3,4,5,6,7,8,9,10}
  Cmds = {1, 2}
  MaxMsgs = 2
  MaxPkts = 6
  Export = FALSE
SPECIFICATION Spec
VIEW view
INVARIANT ExactlyOnceInOrder
INVARIANT OrphansYieldNothing
INVARIANT NoCrossTalk
INVARIANT TypeOK
CHECK_DEADLOCK FALSE
