\* thorough: two channels with up to two messages each (two command values), a stray, every packet-count and fill class of the small-capacity protocol (2.4 M distinct states with six lengths: 2.5 min at 12 workers)
CONSTANTS
  InitCap = 2
  ContCap = 3
  MaxCont = 3
  Channels = {1, 2}
  Strays = {9}
  Lens = {0,1,2,3,5,6,8,11}
  Cmds = {1, 2}
  MaxMsgs = 2
  Cuts = {0}
  MaxPkts = 6
  Export = FALSE
SPECIFICATION Spec
VIEW view
INVARIANT ExactlyOnceInOrder
INVARIANT OrphansYieldNothing
INVARIANT NoCrossTalk
INVARIANT TypeOK
CHECK_DEADLOCK FALSE
