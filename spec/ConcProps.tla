------------------------------ MODULE ConcProps ------------------------------
(***************************************************************************)
(* Layer A for C19, over what is observable when several ceremonies share  *)
(* one store: the requests, every store call / prompt / result tagged with *)
(* the ceremony it belongs to, in the order they happened, and the final   *)
(* store.                                                                  *)
(***************************************************************************)
EXTENDS Naturals, Integers, Sequences, FiniteSets, TLC

HasCtr(c) == c.hi >= 0
CtrLess(a, b) == a.hi < b.hi \/ (a.hi = b.hi /\ a.lo < b.lo)
ToSet(s) == { s[i] : i \in 1..Len(s) }
Has(snap, id) == \E i \in 1..Len(snap) : snap[i].id = id
Get(snap, id) == snap[CHOOSE i \in 1..Len(snap) : snap[i].id = id]

Begin(cfg, store, cers) ==
    [cfg |-> cfg, snap0 |-> store, cers |-> cers, all |-> <<>>, final |-> FALSE, snapF |-> <<>>]

\* e: an event [ev, d] of ceremony i
Observe(o, i, e) == [o EXCEPT !.all = Append(o.all, [cer |-> i, ev |-> e.ev, d |-> e.d])]
Final(o, store) == [o EXCEPT !.final = TRUE, !.snapF = store]

N(o) == Len(o.cers)
EvsOf(o, i) == SelectSeq(o.all, LAMBDA e : e.cer = i)
EndOf(o, i) == SelectSeq(EvsOf(o, i), LAMBDA e : e.ev = "End")
Ok(o, i) == EndOf(o, i) # <<>> /\ EndOf(o, i)[1].d.ok
\* position in the global order of ceremony i's first store call of a kind, 0 if none
Pos(o, i, call) == LET I == { k \in 1..Len(o.all) : o.all[k].cer = i /\ o.all[k].ev = "Store" /\ o.all[k].d.call = call }
                   IN IF I = {} THEN 0 ELSE CHOOSE k \in I : \A j \in I : k <= j

Assertions(o, id) == { i \in 1..N(o) : /\ o.cers[i].op = "ga" /\ Ok(o, i) /\ EndOf(o, i)[1].d.cred = id
                                      /\ Has(o.snap0, id) /\ HasCtr(Get(o.snap0, id).ctr) }
Dups(o, id) == { p \in Assertions(o, id) \X Assertions(o, id) :
                   p[1] < p[2] /\ EndOf(o, p[1])[1].d.ctr = EndOf(o, p[2])[1].d.ctr }

\* The one history shape in which the code is known to misbehave (finding F7): ceremony j updates the counter from a
\* lookup that preceded another ceremony's update of the same credential (the read-modify-write spans two store calls).
Targets(o, id) == { i \in 1..N(o) : o.cers[i].op = "ga" /\ \E k \in 1..Len(o.all) :
                      o.all[k].cer = i /\ o.all[k].ev = "Store" /\ o.all[k].d.call = "update" /\ o.all[k].d.cred.id = id }
StaleShape(o, id) ==
    \E i \in Targets(o, id) : \E j \in Targets(o, id) :
        i # j /\ Pos(o, j, "find") > 0 /\ Pos(o, j, "find") < Pos(o, i, "update") /\ Pos(o, i, "update") < Pos(o, j, "update")
\* The finding is about increments computed from a stale read, nothing else: the exemption applies only to histories
\* in which every counter write of every ceremony is "the value its own lookup saw, plus one".
CtrInc(c) == IF c.lo < 65535 THEN [hi |-> c.hi, lo |-> c.lo + 1] ELSE [hi |-> c.hi + 1, lo |-> 0]
SeenBy(o, j, id) == LET k == Pos(o, j, "find") IN Get(o.all[k].d.snap, id).ctr
OnlyIncrements(o, id) ==
    \A k \in 1..Len(o.all) :
        (o.all[k].ev = "Store" /\ o.all[k].d.call = "update" /\ o.all[k].d.cred.id = id) =>
            LET j == o.all[k].cer IN
            /\ Pos(o, j, "find") > 0 /\ Has(o.all[Pos(o, j, "find")].d.snap, id)
            /\ o.all[k].d.cred.ctr = CtrInc(SeenBy(o, j, id))
StaleUpdate(o, id) == StaleShape(o, id) /\ OnlyIncrements(o, id)

CredIds(o) == { o.snap0[k].id : k \in 1..Len(o.snap0) }
\* ceremonies whose counter update the store accepted although they did not end in a successful assertion (a later
\* step failed): their increment legitimately stays (C07), so the stored value may exceed the largest reported one
SpentOn(o, id) == { i \in 1..N(o) : /\ o.cers[i].op = "ga" /\ ~Ok(o, i)
                                    /\ \E k \in 1..Len(o.all) : /\ o.all[k].cer = i /\ o.all[k].ev = "Store" /\ o.all[k].d.call = "update"
                                                                /\ o.all[k].d.ok /\ o.all[k].d.cred.id = id }
\* the stored value is behind a reported one (a stale write replaced a newer value: the F7 shape can do that) ...
LargestBehind(o, id) ==
    /\ Assertions(o, id) # {} /\ Has(o.snapF, id)
    /\ \E i \in Assertions(o, id) : CtrLess(Get(o.snapF, id).ctr, EndOf(o, i)[1].d.ctr)
\* ... or it is a value no successful assertion reported although no failed ceremony spent one.  F7 cannot do that:
\* when every write is "seen + 1" and is stored as written, the stored value is the last writer's reported value.
LargestAhead(o, id) ==
    /\ Assertions(o, id) # {} /\ Has(o.snapF, id) /\ ~LargestBehind(o, id)
    /\ SpentOn(o, id) = {}
    /\ \A i \in Assertions(o, id) : EndOf(o, i)[1].d.ctr # Get(o.snapF, id).ctr
LargestWrong(o, id) == LargestBehind(o, id) \/ LargestAhead(o, id)

\* C05 under concurrency.  The store API has no delete, so a credential held when the ceremonies began is held
\* throughout: a registration whose non-empty exclude list names one held for its RP must be refused whatever the
\* other ceremonies do, and an assertion is made with a credential of its RP (and of its allow list).
ReqOf(o, i) == o.cers[i].req
NoFaultsOf(o, i) == \A k \in 1..Len(o.cers[i].env.faults) : o.cers[i].env.faults[k] = 0
ConsentOf(o, i) == \E k \in 1..Len(o.all) :
                      /\ o.all[k].cer = i /\ o.all[k].ev = "Prompt" /\ o.all[k].d.ok
                      /\ (ReqOf(o, i).up => o.all[k].d.pres) /\ (ReqOf(o, i).uv => o.all[k].d.verif)
ExcludeHitOf(o, i) == LET r == ReqOf(o, i) IN
                      r.excludeGiven /\ \E k \in 1..Len(r.exclude) :
                          Has(o.snap0, r.exclude[k]) /\ Get(o.snap0, r.exclude[k]).rp = r.rp
ExcludeIgnored(o) == \E i \in 1..N(o) :
                        /\ o.cers[i].op = "mc" /\ EndOf(o, i) # <<>> /\ NoFaultsOf(o, i) /\ ConsentOf(o, i)
                        /\ ExcludeHitOf(o, i) /\ EndOf(o, i)[1].d.err # 25
ForeignAssertion(o) == \E i \in 1..N(o) :
                          /\ o.cers[i].op = "ga" /\ Ok(o, i)
                          /\ LET id == EndOf(o, i)[1].d.cred
                                 r == ReqOf(o, i) IN
                             \/ ~Has(o.snapF, id)
                             \/ Get(o.snapF, id).rp # r.rp
                             \/ (r.allowGiven /\ r.allow # <<>> /\ id \notin ToSet(r.allow))

\* C04 under concurrency: the credential shown at a ceremony's consent prompt is the one its assertion is made with,
\* whatever other ceremonies do to the store while the prompt is pending
ShownNotSigner(o) == \E i \in 1..N(o) :
                        /\ o.cers[i].op = "ga" /\ Ok(o, i)
                        /\ LET P == SelectSeq(EvsOf(o, i), LAMBDA e : e.ev = "Prompt") IN
                           P = <<>> \/ P[Len(P)].d.shown # EndOf(o, i)[1].d.cred

Violated(o) ==
    (IF o.final /\ ShownNotSigner(o) THEN {"C04.ShownIsSigner.Concurrent"} ELSE {})
    \cup (IF o.final /\ ExcludeIgnored(o) THEN {"C05.ExcludedIff.Concurrent"} ELSE {})
    \cup (IF o.final /\ ForeignAssertion(o) THEN {"C05.OwnRpAndAllowList.Concurrent"} ELSE {})
    \cup (IF \E k \in 1..Len(o.all) : o.all[k].ev = "Deadlock" THEN {"C19.Deadlock"} ELSE {})
    \cup (IF \E k \in 1..Len(o.all) : o.all[k].ev = "Crash" THEN {"Any.Crash"} ELSE {})
    \cup (IF o.final /\ o.cfg.storeKind # "slot" /\
             \E i \in 1..N(o) : o.cers[i].op = "mc" /\ Ok(o, i) /\ ~Has(o.snapF, EndOf(o, i)[1].d.cred)
          THEN {"C19.RegistrationPresent"} ELSE {})
    \cup (IF o.final /\ \E id \in CredIds(o) : Dups(o, id) # {} /\ ~StaleUpdate(o, id)
          THEN {"C19.DistinctCounters"} ELSE {})
    \cup (IF o.final /\ \E id \in CredIds(o) : Dups(o, id) # {} /\ StaleUpdate(o, id)
          THEN {"C19.DistinctCounters.StaleUpdate"} ELSE {})
    \cup (IF o.final /\ \E id \in CredIds(o) : (LargestBehind(o, id) /\ ~StaleUpdate(o, id)) \/ LargestAhead(o, id)
          THEN {"C19.LargestIsStored"} ELSE {})
    \cup (IF o.final /\ \E id \in CredIds(o) : LargestBehind(o, id) /\ StaleUpdate(o, id)
          THEN {"C19.LargestIsStored.StaleUpdate"} ELSE {})
=============================================================================
