------------------------------ MODULE ClientCer ------------------------------
(* Client-level ceremonies (Client::register / authenticate) - placeholder, completed below. *)
EXTENDS Naturals, Integers, Sequences, FiniteSets, TLC
NewCer(op, req, env) == [api |-> "client", op |-> op, req |-> req, env |-> env, done |-> TRUE]
Step(cfg, cer, store, nnew) == [cer |-> cer, store |-> store, nnew |-> nnew, ev |-> [ev |-> "none", d |-> [x |-> 0]]]
ClientExplains(p, e) == TRUE
=============================================================================
