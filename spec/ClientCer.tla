------------------------------ MODULE ClientCer ------------------------------
(***************************************************************************)
(* Layer B: the WebAuthn client ceremonies of passkey-client               *)
(* (Client::register / Client::authenticate in lib.rs, extensions.rs,      *)
(* extensions/prf.rs) as wrappers around the CTAP2 ceremonies of           *)
(* Ceremony.tla:                                                           *)
(*   capability query (get_info -> store.get_info)  -> assert_domain       *)
(*   -> client data -> PRF input conversion/validation -> rk/uv mapping    *)
(*   -> make_credential / get_assertion (inner ceremony)                   *)
(*   -> [register: store.get_info for credProps] -> response               *)
(*                                                                         *)
(* The verdict of assert_domain for the origin / RP-ID representatives     *)
(* used in ceremonies travels in the request (req.dom), it is decided by   *)
(* RpId.tla / checked by C01's own batch check; here it only orders the    *)
(* steps: a rejected pair ends the ceremony before any authenticator call. *)
(***************************************************************************)
EXTENDS Naturals, Integers, Sequences, FiniteSets, TLC

C == INSTANCE Ceremony

NoClient == [present |-> FALSE]

\* WebAuthn mapping of residentKey / requireResidentKey / capability to the rk option (Client::map_rk)
MapRk(cfg, req) ==
    LET supports == cfg.disc # "nondisc" IN
    IF ~req.authSel THEN FALSE
    ELSE CASE req.residentKey = "required"    -> TRUE
           [] req.residentKey = "preferred"   -> supports
           [] req.residentKey = "discouraged" -> FALSE
           [] OTHER                           -> req.requireRk

MapUv(req) == IF req.authSel THEN req.uvreq # "discouraged" ELSE TRUE
MapUvAuth(req) == req.uvreq # "discouraged"

SupportsPrf(cfg) == cfg.hmac # "off"

NoPrfIn == [given |-> FALSE, eval |-> "absent", byCred |-> <<>>, byCredGiven |-> FALSE]

\* salts are named after the input they derive from; "raw:" marks a pre-hashed input used as is
Pfx(hashed) == IF hashed THEN "raw:" ELSE ""

\* ---- registration: registration_prf_to_ctap2_input --------------------------------------------
\* result [werr, prf (ctap-shaped), raw (salts are the inputs themselves)]
RegOne(cfg, p, hashed) ==
    \* p: the prf or prfAlreadyHashed member: [given, eval, byCredGiven, badlen]
    IF ~p.given THEN [werr |-> "none", some |-> FALSE, prf |-> NoPrfIn, raw |-> hashed]
    ELSE IF p.byCredGiven THEN [werr |-> "NotSupportedError", some |-> FALSE, prf |-> NoPrfIn, raw |-> hashed]
    ELSE IF ~SupportsPrf(cfg) THEN [werr |-> "none", some |-> FALSE, prf |-> NoPrfIn, raw |-> hashed]
    ELSE IF hashed /\ p.badlen /\ p.eval # "absent"
         THEN [werr |-> "ValidationError", some |-> FALSE, prf |-> NoPrfIn, raw |-> hashed]
    ELSE [werr |-> "none", some |-> TRUE,
          prf |-> [given |-> TRUE, eval |-> p.eval, byCred |-> <<>>, byCredGiven |-> FALSE], raw |-> hashed]

Member(c, hashed) ==
    IF hashed THEN [given |-> c.kind \in {"hashed", "both"}, eval |-> c.eval, byCred |-> c.byCred,
                    byCredGiven |-> c.byCredGiven, badlen |-> c.badlen]
    ELSE [given |-> c.kind \in {"prf", "both"}, eval |-> c.eval, byCred |-> c.byCred,
          byCredGiven |-> c.byCredGiven, badlen |-> FALSE]

RegPrf(cfg, c) ==
    LET a == RegOne(cfg, Member(c, FALSE), FALSE) IN
    IF a.werr # "none" \/ a.some THEN a ELSE RegOne(cfg, Member(c, TRUE), TRUE)

\* ---- authentication: auth_prf_to_ctap2_input --------------------------------------------------
\* per-credential keys: a credential id, or "k:empty" / "k:bad64" (malformed), or an id not in the allow list
BadKey(k) == k \in {"k:empty", "k:bad64"}
AuthOne(cfg, req, p, hashed) ==
    IF ~SupportsPrf(cfg) THEN [werr |-> "none", some |-> FALSE, prf |-> NoPrfIn, raw |-> hashed]
    ELSE IF p.given /\ p.byCredGiven /\ p.byCred # <<>> /\ (~req.allowGiven \/ req.allow = <<>>)
         THEN [werr |-> "NotSupportedError", some |-> FALSE, prf |-> NoPrfIn, raw |-> hashed]
    ELSE IF p.given /\ p.byCredGiven /\ \E i \in 1..Len(p.byCred) : p.byCred[i].id = "k:bad64"
         THEN [werr |-> "SyntaxError", some |-> FALSE, prf |-> NoPrfIn, raw |-> hashed]
    ELSE IF p.given /\ p.byCredGiven /\ \E i \in 1..Len(p.byCred) :
                \/ p.byCred[i].id = "k:empty"
                \/ (req.allowGiven /\ \A j \in 1..Len(req.allow) : req.allow[j] # p.byCred[i].id)
         THEN [werr |-> "SyntaxError", some |-> FALSE, prf |-> NoPrfIn, raw |-> hashed]
    ELSE IF p.given /\ hashed /\ p.badlen /\ (p.eval # "absent" \/ (p.byCredGiven /\ p.byCred # <<>>))
         THEN [werr |-> "ValidationError", some |-> FALSE, prf |-> NoPrfIn, raw |-> hashed]
    ELSE IF ~p.given THEN [werr |-> "none", some |-> FALSE, prf |-> NoPrfIn, raw |-> hashed]
    ELSE [werr |-> "none", some |-> TRUE,
          prf |-> [given |-> TRUE, eval |-> p.eval, byCred |-> p.byCred, byCredGiven |-> p.byCredGiven], raw |-> hashed]

AuthPrf(cfg, req, c) ==
    LET a == AuthOne(cfg, req, Member(c, FALSE), FALSE) IN
    IF a.werr # "none" \/ a.some THEN a ELSE AuthOne(cfg, req, Member(c, TRUE), TRUE)

-----------------------------------------------------------------------------
NewCer(op, req, env) ==
    [api |-> "client", op |-> op, req |-> req, env |-> env, pc |-> "begin", ncount |-> 0,
     in |-> C!NewCer("ctap2", op, req, env), raw |-> FALSE, endd |-> C!EndErr(0), done |-> FALSE]

Res(cer, store, nnew, ev) == [cer |-> cer, store |-> store, nnew |-> nnew, ev |-> ev]

Cancel(cer, store, nnew) ==
    Res([cer EXCEPT !.done = TRUE, !.pc = "cancelled"], store, nnew, C!Ev("Cancel", [after |-> cer.ncount]))

InfoEv(cfg, store) ==
    C!StoreEv("info", FALSE, <<>>, "none", C!NoCred, TRUE, 0, <<>>, C!Listing(cfg, store), FALSE)

\* a WebAuthn-level error result
WErr(name, code) == [C!EndErr(code) EXCEPT !.werr = name]

Finish(cer, store, nnew, d) ==
    Res([cer EXCEPT !.done = TRUE, !.pc = "done"], store, nnew, C!Ev("End", d))

\* rename the salts of a PRF output when the inputs were pre-hashed
RawSalt(raw, p) == IF raw /\ p.sec # "absent" THEN [p EXCEPT !.salt = "raw:" \o p.salt] ELSE p

RegClient(cfg, cer, rk) ==
    [present |-> TRUE, cdType |-> "webauthn.create", chalOk |-> TRUE, originOk |-> TRUE, crossOrigin |-> FALSE,
     copiesEqual |-> TRUE, attFmt |-> "none", idOk |-> TRUE, rawIdOk |-> TRUE, coseEqDer |-> TRUE, algReported |-> -7,
     credProps |-> IF cer.req.credProps = "true" THEN (IF C!Discoverable(cfg, rk) THEN "true" ELSE "false") ELSE "absent",
     orderOk |-> TRUE, reparse |-> TRUE]

AuthClient ==
    [present |-> TRUE, cdType |-> "webauthn.get", chalOk |-> TRUE, originOk |-> TRUE, crossOrigin |-> FALSE,
     copiesEqual |-> TRUE, attFmt |-> "none", idOk |-> TRUE, rawIdOk |-> TRUE, coseEqDer |-> TRUE, algReported |-> 0,
     credProps |-> "absent", orderOk |-> TRUE, reparse |-> TRUE]

\* wrap a step of the inner CTAP2 ceremony
Wrap(cfg, cer, r) ==
    LET cer2 == [cer EXCEPT !.in = r.cer, !.ncount = r.cer.ncount] IN
    IF r.ev.ev = "Cancel" THEN Res([cer2 EXCEPT !.done = TRUE, !.pc = "cancelled"], r.store, r.nnew, r.ev)
    ELSE IF r.ev.ev # "End" THEN Res([cer2 EXCEPT !.pc = "c.inner"], r.store, r.nnew, r.ev)
    ELSE IF ~r.ev.d.ok
         THEN Finish(cer2, r.store, r.nnew,
                     IF cer.op = "ga" /\ r.ev.d.err = C!NoCredentials THEN WErr("CredentialNotFound", 0)
                     ELSE WErr("AuthenticatorError", r.ev.d.err))
    ELSE IF cer.op = "mc"
         THEN \* credProps needs the store capability: one more capability query
              IF cer.env.cancelAt = cer2.ncount THEN Cancel(cer2, r.store, r.nnew)
              ELSE Res([cer2 EXCEPT !.pc = "c.info2", !.ncount = cer2.ncount + 1, !.endd = r.ev.d], r.store, r.nnew,
                       InfoEv(cfg, r.store))
         ELSE Finish(cer2, r.store, r.nnew,
                     [r.ev.d EXCEPT !.client = AuthClient, !.prf1 = RawSalt(cer.raw, r.ev.d.prf1),
                                    !.prf2 = RawSalt(cer.raw, r.ev.d.prf2)])

DefaultAlgs == <<"ES256", "RS256">>

Step(cfg, cer, store, nnew) ==
    CASE cer.pc = "begin" ->
           IF cer.env.cancelAt = 0 THEN Cancel(cer, store, nnew)
           ELSE Res([cer EXCEPT !.pc = "c.info1", !.ncount = 1], store, nnew, InfoEv(cfg, store))
      [] cer.pc = "c.info1" ->
           IF cer.env.cancelAt = cer.ncount THEN Cancel(cer, store, nnew)
           ELSE IF cer.req.dom # "ok" THEN Finish(cer, store, nnew, WErr(cer.req.dom, 0))
           ELSE LET p == IF cer.op = "mc" THEN RegPrf(cfg, cer.req.cprf) ELSE AuthPrf(cfg, cer.req, cer.req.cprf) IN
                IF p.werr # "none" THEN Finish(cer, store, nnew, WErr(p.werr, 0))
                ELSE LET rk == IF cer.op = "mc" THEN MapRk(cfg, cer.req) ELSE FALSE
                         ireq == [cer.req EXCEPT
                                    !.algs = IF cer.op = "mc" /\ cer.req.algs = <<>> THEN DefaultAlgs ELSE cer.req.algs,
                                    !.rk = rk, !.up = TRUE,
                                    !.uv = IF cer.op = "mc" THEN MapUv(cer.req) ELSE MapUvAuth(cer.req),
                                    !.pinAuth = FALSE, !.hs = "absent",
                                    !.prf = IF p.some THEN p.prf ELSE NoPrfIn]
                         inner == [C!NewCer("ctap2", cer.op, ireq, cer.env) EXCEPT !.ncount = cer.ncount]
                     IN Wrap(cfg, [cer EXCEPT !.raw = p.raw], C!Step(cfg, inner, store, nnew))
      [] cer.pc = "c.inner" -> Wrap(cfg, cer, C!Step(cfg, cer.in, store, nnew))
      [] cer.pc = "c.info2" ->
           IF cer.env.cancelAt = cer.ncount THEN Cancel(cer, store, nnew)
           ELSE Finish(cer, store, nnew,
                       [cer.endd EXCEPT !.client = RegClient(cfg, cer, cer.in.req.rk),
                                        !.prf1 = RawSalt(cer.raw, cer.endd.prf1),
                                        !.prf2 = RawSalt(cer.raw, cer.endd.prf2)])

ClientExplains(p, e) == p = e
=============================================================================
