CONSTANTS
  Cfgs <- C07_Cfgs
  StoreLists <- C07_Stores
  CerLists <- C18a_Cers
  Known = {}
  Export = TRUE
SPECIFICATION Spec
INVARIANT PropertiesHold
INVARIANT ExportInv
CHECK_DEADLOCK FALSE
