\* behaviour export: 2 channels with up to two messages each and a stray channel sending orphan continuations
CONSTANTS
  InitCap = 57
  ContCap = 59
  MaxCont = 128
  Channels = {1, 2}
  Strays = {9}
  Lens = {57, 116}
  Cmds = {1}
  MaxMsgs = 2
  Cuts = {0}
  MaxPkts = 3
  Export = TRUE
SPECIFICATION Spec
INVARIANT ExportInv
CHECK_DEADLOCK FALSE
