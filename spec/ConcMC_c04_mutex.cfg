CONSTANTS
  Cfgs <- C04_ConcCfgs
  Stores <- C19_Stores
  CerSets <- C04_ConcPairs
  PlanOk <- C19_PlanOk
  Lock = "mutex"
  Known = {"C19.DistinctCounters.StaleUpdate", "C19.LargestIsStored.StaleUpdate"}
  Export = TRUE
SPECIFICATION Spec
INVARIANT PropertiesHold
INVARIANT NoDeadlock
INVARIANT ExportInv
CHECK_DEADLOCK FALSE
