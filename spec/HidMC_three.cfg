\* thorough: every payload length of the small-capacity protocol, three channels, one stray
CONSTANTS
  InitCap = 2
  ContCap = 3
  MaxCont = 3
  Channels = {1, 2, 3}
  Strays = {9}
  Lens = {0,1,2,3,4,5,6,7,8,9,10}
  Cmds = {1}
  MaxMsgs = 1
  Cuts = {0}
  MaxPkts = 4
  Export = FALSE
SPECIFICATION Spec
VIEW view
INVARIANT ExactlyOnceInOrder
INVARIANT OrphansYieldNothing
INVARIANT NoCrossTalk
INVARIANT TypeOK
CHECK_DEADLOCK FALSE
