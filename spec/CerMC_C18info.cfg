CONSTANTS
  Cfgs <- C18i_Cfgs
  StoreLists <- C11_Stores
  CerLists <- C18i_Cers
  Known = {}
  Export = TRUE
SPECIFICATION Spec
INVARIANT PropertiesHold
INVARIANT ExportInv
CHECK_DEADLOCK FALSE
