CONSTANTS
  Cfgs <- C03_Cfgs
  StoreLists <- C02_Stores
  CerLists <- C02_HistCers
  Known = {}
  Export = TRUE
SPECIFICATION Spec
INVARIANT PropertiesHold
INVARIANT ExportInv
CHECK_DEADLOCK FALSE
