CONSTANTS
  Cfgs <- C05_CfgsMem
  StoreLists <- C05_NearStores
  CerLists <- C05_NearCers
  Known = {"C05.OwnRpAndAllowList", "C05.ExcludedIff", "C03.Assertion", "C03.NoEligibleCredential"}
  Export = TRUE
SPECIFICATION Spec
INVARIANT PropertiesHold
INVARIANT ExportInv
CHECK_DEADLOCK FALSE
