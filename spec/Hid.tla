-------------------------------- MODULE Hid --------------------------------
(***************************************************************************)
(* CTAPHID fragmentation (sender) and reassembly (receiver) as coded in    *)
(* passkey-transports/src/hid.rs.                                          *)
(*                                                                         *)
(* Payload bytes are abstracted: a packet's data area holds `dlen` bytes   *)
(* taken from message `id` at offset `off`, followed by zero padding up to *)
(* `avail` bytes (the size of the data area of the packet actually         *)
(* received).  A reassembled payload is a sequence of parts                *)
(* <<id, off, n, pad>>: n bytes of message id from offset off, plus `pad`  *)
(* bytes that were taken from the padding (pad > 0 means corruption).      *)
(*                                                                         *)
(* Layer B: Recv/Fragment/SenderAccepts are the code's behaviour, one      *)
(* operator per decision in hid.rs.  Layer A (the listed property C16) is  *)
(* in HidMC.tla / HidTrace.tla as invariants over what was sent/delivered. *)
(***************************************************************************)
EXTENDS Naturals, Sequences, FiniteSets

CONSTANTS InitCap,   \* data bytes in an initialisation packet (64 - 7 = 57)
          ContCap,   \* data bytes in a continuation packet  (64 - 5 = 59)
          MaxCont    \* continuation packets allowed by the protocol (128)

Min(a, b) == IF a < b THEN a ELSE b
Max(a, b) == IF a > b THEN a ELSE b

-----------------------------------------------------------------------------
(* Sender: Message::new and Message::send/to_packets                       *)

\* Message::new: refuses above u16, and when the continuation count would
\* exceed MaxCont.  The coded bound uses `rest / ContCap + 1`, which refuses
\* an exact multiple one packet early: the largest accepted length is
\* InitCap + ContCap*MaxCont - 1 (7608), one less than the protocol maximum.
SenderAccepts(len) ==
    /\ len <= 65535
    /\ (len > InitCap => ((len - InitCap) \div ContCap) + 1 <= MaxCont)

ProtocolMax == InitCap + ContCap * MaxCont      \* 7609

NumCont(len) == IF len <= InitCap THEN 0
                ELSE (len - InitCap + ContCap - 1) \div ContCap

InitPkt(len) == [kind |-> "init", bcnt |-> len, seq |-> 0,
                 off |-> 0, dlen |-> Min(len, InitCap)]
ContPkt(len, i) == [kind |-> "cont", bcnt |-> 0, seq |-> i,
                    off |-> InitCap + ContCap * i,
                    dlen |-> Min(ContCap, len - InitCap - ContCap * i)]

\* The packet list written by send(): one init packet, then continuation
\* packets numbered 0, 1, ... each carrying the next slice of the payload.
Fragment(len) ==
    <<InitPkt(len)>> \o [i \in 1..NumCont(len) |-> ContPkt(len, i - 1)]

\* Data capacity of the packet of a given kind when it is a full 64-byte packet
Cap(kind) == IF kind = "init" THEN InitCap ELSE ContCap

-----------------------------------------------------------------------------
(* Receiver: ChannelHandler::handle_packet                                 *)

Idle == [busy |-> FALSE, total |-> 0, got |-> 0, seq |-> 0, cmd |-> 0, parts |-> <<>>]

\* One part of a payload: `take` bytes from the data area of packet p.
Part(p, take) == <<p.id, p.off, Min(take, p.dlen), Max(take, p.dlen) - p.dlen>>

NoDelivery == [some |-> FALSE, chan |-> 0, cmd |-> 0, len |-> 0, parts |-> <<>>]
Delivery(c, cmd, len, parts) ==
    [some |-> TRUE, chan |-> c, cmd |-> cmd, len |-> len, parts |-> parts]

\* Result of feeding packet p to a handler whose table is rx:
\*   [rx |-> new table, out |-> delivery or NoDelivery]
\* p = [chan, kind, cmd, bcnt, seq, avail, id, off, dlen]
\* `avail` is the number of bytes after the header in the packet as received
\* (Cap(kind) for 64-byte packets).  Packets whose lengths do not add up
\* (shorter than declared, longer than declared, sequence past 255) are
\* dropped without touching the table - at the pinned commit they panicked;
\* see known_findings.jsonl (fixed: C15 hid).
Drop(rx) == [rx |-> rx, out |-> NoDelivery]

RecvInit(rx, p) ==
    LET c == p.chan
        take == IF p.bcnt > InitCap THEN p.avail ELSE p.bcnt
    IN  IF p.bcnt <= InitCap /\ p.avail < p.bcnt
        THEN Drop(rx)            \* ShortInitPacketDropped
        ELSE IF take = p.bcnt
        THEN \* complete at once; an older partial message on the channel stays
             [rx |-> rx, out |-> Delivery(c, p.cmd, p.bcnt, <<Part(p, take)>>)]
        ELSE \* InitOnBusyChannelReplaces: any unfinished message is dropped
             [rx |-> [rx EXCEPT ![c] = [busy |-> TRUE, total |-> p.bcnt, got |-> take,
                                        seq |-> 0, cmd |-> p.cmd,
                                        parts |-> <<Part(p, take)>>]],
              out |-> NoDelivery]

RecvCont(rx, p) ==
    LET c == p.chan
        m == rx[c]
    IN  IF ~m.busy THEN Drop(rx)                      \* orphan continuation
        ELSE IF p.seq # m.seq THEN Drop(rx)           \* OutOfSequenceKeepsPartial
        ELSE IF m.seq >= 255 THEN Drop(rx)            \* SequencePast255Dropped
        ELSE IF m.total < m.got THEN Drop(rx)         \* OverlongInitNeverCompletes
        ELSE LET remaining == m.total - m.got IN
             IF remaining <= ContCap
             THEN IF p.avail < remaining
                  THEN Drop(rx)                       \* ShortContPacketDropped
                  ELSE [rx |-> [rx EXCEPT ![c] = Idle],
                        out |-> Delivery(c, m.cmd, m.total,
                                         Append(m.parts, Part(p, remaining)))]
             ELSE \* middle packet: everything that arrived is appended
                  \* (ShortMiddlePacketAccepted: no check that it is a full packet)
                  [rx |-> [rx EXCEPT ![c] = [m EXCEPT !.got = m.got + p.avail,
                                                      !.seq = m.seq + 1,
                                                      !.parts = Append(m.parts, Part(p, p.avail))]],
                   out |-> NoDelivery]

Recv(rx, p) == IF p.kind = "init" THEN RecvInit(rx, p) ELSE RecvCont(rx, p)

-----------------------------------------------------------------------------
(* What a correct delivery of message [id, cmd, len] on channel c looks like *)

Ranges(id, len) ==
    [i \in 1..Len(Fragment(len)) |->
        LET q == Fragment(len)[i] IN <<id, q.off, q.dlen, 0>>]

\* the wire packet list of a message, with receiver-side fields filled in
Packets(c, msg) ==
    [i \in 1..Len(Fragment(msg.len)) |->
        LET q == Fragment(msg.len)[i] IN
        [chan |-> c, kind |-> q.kind, cmd |-> msg.cmd, bcnt |-> q.bcnt, seq |-> q.seq,
         avail |-> Cap(q.kind), id |-> msg.id, off |-> q.off, dlen |-> q.dlen]]

=============================================================================
