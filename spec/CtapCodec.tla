------------------------------ MODULE CtapCodec ------------------------------
(***************************************************************************)
(* C13: the CTAP2 messages as tables  member -> (integer key, required /   *)
(* optional / always present with a default), the case space (every subset *)
(* of optional members, injected unknown / duplicated / missing members),  *)
(* the partition of the 256 status bytes, and the batch judgement of what  *)
(* `pkverif ctapcodec` observed from the real (de)serialisers.             *)
(***************************************************************************)
EXTENDS Naturals, Integers, Sequences, FiniteSets, SequencesExt, TLC, Json, IOUtils

M(k, kind) == [key |-> k, kind |-> kind]      \* kind: "req" | "opt" | "dflt" (always serialised, defaulted when absent)

Table ==
    [ mcReq  |-> [clientDataHash |-> M(1, "req"), rp |-> M(2, "req"), user |-> M(3, "req"), pubKeyCredParams |-> M(4, "req"),
                  excludeList |-> M(5, "opt"), extensions |-> M(6, "opt"), options |-> M(7, "dflt"),
                  pinAuth |-> M(8, "opt"), pinProtocol |-> M(9, "opt")],
      mcResp |-> [fmt |-> M(1, "req"), authData |-> M(2, "req"), attStmt |-> M(3, "req"), epAtt |-> M(4, "opt"),
                  largeBlobKey |-> M(5, "opt"), unsignedExtensionOutputs |-> M(6, "opt")],
      gaReq  |-> [rpId |-> M(1, "req"), clientDataHash |-> M(2, "req"), allowList |-> M(3, "opt"), extensions |-> M(4, "opt"),
                  options |-> M(5, "dflt"), pinAuth |-> M(6, "opt"), pinProtocol |-> M(7, "opt")],
      gaResp |-> [credential |-> M(1, "opt"), authData |-> M(2, "req"), signature |-> M(3, "req"), user |-> M(4, "opt"),
                  numberOfCredentials |-> M(5, "opt"), userSelected |-> M(6, "opt"), largeBlobKey |-> M(7, "opt"),
                  unsignedExtensionOutputs |-> M(8, "opt")],
      info   |-> [versions |-> M(1, "req"), extensions |-> M(2, "opt"), aaguid |-> M(3, "req"), options |-> M(4, "opt"),
                  maxMsgSize |-> M(5, "opt"), pinProtocols |-> M(6, "opt"), transports |-> M(9, "opt")],
      hmac   |-> [keyAgreement |-> M(1, "req"), saltEnc |-> M(2, "req"), saltAuth |-> M(3, "req"), pinUvAuthProtocol |-> M(4, "opt")] ]

Msgs == DOMAIN Table
Members(m) == DOMAIN Table[m]
Opt(m) == { x \in Members(m) : Table[m][x].kind = "opt" }
Req(m) == { x \in Members(m) : Table[m][x].kind = "req" }
Always(m) == { x \in Members(m) : Table[m][x].kind \in {"req", "dflt"} }
KnownKeys(m) == { Table[m][x].key : x \in Members(m) }

\* the keys a serialisation must show: ascending integers of the members present (a defaulted member may be written
\* or left out - what matters for it is that the value survives the round trip)
ExpectedKeys(m, present) == SetToSortSeq({ Table[m][x].key : x \in Always(m) \cup present }, <)
ExpectedKeysNoDflt(m, present) == SetToSortSeq({ Table[m][x].key : x \in Req(m) \cup present }, <)
Digit(s, i) == SubSeq(s, i, i) = "1"

Case(m, p, v, a) == [msg |-> m, present |-> p, variant |-> v, arg |-> a]
\* requests are tried with every value of the rk / up / uv options ("rk,up,uv" as three digits)
OptionValues == {"000", "001", "010", "011", "100", "101", "110", "111"}
PlainCases(m) == IF m \in {"mcReq", "gaReq"}
                 THEN { Case(m, p, "plain", o) : p \in SUBSET Opt(m), o \in OptionValues }
                 ELSE { Case(m, p, "plain", "none") : p \in SUBSET Opt(m) }
UnknownIntCases(m) == { Case(m, Opt(m), "unknown-int", ToString(k)) : k \in ({0, 10, 23, 24, 100, 255} \ KnownKeys(m)) }
DupCases(m) == { Case(m, Opt(m), "dup", x) : x \in Members(m) }
MissingCases(m) == { Case(m, {}, "missing", x) : x \in Req(m) }
\* members that are byte strings of no fixed length by the specification, with lengths around the sizes a decoder may
\* buffer (empty, one, HMAC-sized, 4096 / 4097, 70 000)
ByteMembers == [mcReq |-> {"clientDataHash", "pinAuth"}, gaReq |-> {"clientDataHash", "pinAuth"}, gaResp |-> {"signature"},
                hmac |-> {"saltEnc", "saltAuth"}, mcResp |-> {}, info |-> {}]
ByteLens == {"0", "1", "16", "32", "48", "4096", "4097", "70000"}
BytesLenCases(m) == { Case(m, Opt(m), "bytes-len", x \o ":" \o n) : x \in ByteMembers[m], n \in ByteLens }
\* unknown text keys: a name, and texts that LOOK like member numbers ("1" is not the integer 1), the empty text
UnknownTexts == {"someFutureMember", "1", "2", "3", "4", "06", "255", "-1", "", "0x01"}
\* the options member present with a map that carries only some of rk / up / uv: the others take their defaults
PartialOptions == {"empty", "uv", "rk", "rk,uv", "up=false", "up=false,uv", "rk=false", "uv=false,rk"}
Cases ==
    UNION { PlainCases(m) \cup UnknownIntCases(m) \cup DupCases(m) \cup MissingCases(m)
            \cup { Case(m, p, "unknown-text", t) : t \in UnknownTexts, p \in {{}, Opt(m)} } : m \in Msgs }
    \cup { Case(m, {}, "no-options", "options") : m \in {"mcReq", "gaReq"} }
    \cup { Case(m, {}, "options-partial", a) : m \in {"mcReq", "gaReq"}, a \in PartialOptions }
    \cup UNION { BytesLenCases(m) : m \in Msgs }
\* the values a partial options map gives (members left out take the defaults: up true, rk and uv false)
PartialUp(a) == a \notin {"up=false", "up=false,uv"}
PartialRk(a) == a \in {"rk", "rk,uv", "uv=false,rk"}
PartialUv(a) == a \in {"uv", "rk,uv", "up=false,uv"}


JudgeCase(e) ==
    CASE e.variant = "plain" ->
           /\ e.ser /\ e.keys \in {ExpectedKeys(e.msg, ToSet(e.present)), ExpectedKeysNoDflt(e.msg, ToSet(e.present))}
           /\ e.textkeys = 0 /\ ~e.nulls
           /\ e.de = "ok" /\ e.rt
           /\ (e.arg \in OptionValues => e.rk = Digit(e.arg, 1) /\ e.up = Digit(e.arg, 2) /\ e.uv = Digit(e.arg, 3))
      [] e.variant \in {"unknown-int", "unknown-text"} -> e.de = "ok" /\ e.rt         \* ignored: same value as without it
      [] e.variant \in {"dup", "missing"} -> e.de = "err"
      [] e.variant = "bytes-len" -> e.de = "ok" /\ e.rt              \* parses, and writes back the bytes it was given
      [] e.variant = "no-options" -> e.de = "ok" /\ e.up /\ ~e.rk /\ ~e.uv
      [] e.variant = "options-partial" ->
           /\ e.de = "ok"
           /\ e.up = PartialUp(e.arg) /\ e.rk = PartialRk(e.arg) /\ e.uv = PartialUv(e.arg)

\* status bytes -----------------------------------------------------------
KnownCtap2 == {0, 17, 18, 20, 21, 23, 24, 25} \cup (33..40) \cup (43..55) \cup (57..64)
Ctap1 == (1..6) \cup {10, 11, 127}
Class(b) == IF b \in KnownCtap2 THEN "ctap2-known"
            ELSE IF b \in Ctap1 THEN "ctap1"
            ELSE IF b \in 224..239 THEN "ctap2-extension"
            ELSE IF b \in 240..255 THEN "ctap2-vendor"
            ELSE "ctap2-other"
\* layer A: one value per byte and back to the same byte; the client's mapping.  Which of the library's classes a
\* byte falls in (a code the library knows by name or not) is layer B: a newly named code is drift, not an alarm.
StatusDrift(e) == e.kind = "status" /\ e.class # Class(e.byte)
JudgeStatus(e) ==
    /\ e.back = e.byte
    /\ IF e.byte = 46 THEN e.werr = "CredentialNotFound" ELSE e.werr = "AuthenticatorError" /\ e.wcode = e.byte

Judge(e) == IF e.kind = "status" THEN JudgeStatus(e) ELSE JudgeCase(e)

Rec == IF "TRACE" \in DOMAIN IOEnv THEN ndJsonDeserialize(IOEnv.TRACE) ELSE <<>>
VARIABLE done
Init == done = FALSE
Next == /\ ~done
        /\ IF "TRACE" \in DOMAIN IOEnv
           THEN PrintT(<<"RESULT", ToJson([events |-> Len(Rec), viol |-> { i \in 1..Len(Rec) : ~Judge(Rec[i]) },
                                            drift |-> { i \in 1..Len(Rec) : StatusDrift(Rec[i]) }])>>)
           ELSE PrintT(<<"CASES", ToJson(Cases)>>)
        /\ done' = TRUE
Spec == Init /\ [][Next]_done
=============================================================================
