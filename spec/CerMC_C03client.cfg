CONSTANTS
  Cfgs <- C03_Cfgs
  StoreLists <- C03_Stores
  CerLists <- C03ct_Cers
  Known = {}
  Export = TRUE
SPECIFICATION Spec
INVARIANT PropertiesHold
INVARIANT ExportInv
CHECK_DEADLOCK FALSE
