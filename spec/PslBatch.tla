------------------------------ MODULE PslBatch ------------------------------
(***************************************************************************)
(* C10: one-state batch validation of public-suffix lookups observed on    *)
(* the real code (`pkverif psl probe`) against Psl!SuffixLen evaluated     *)
(* over the rules parsed from the shipped public_suffix_list.dat.          *)
(*                                                                         *)
(* event: [k: "canon" | "any", d: labels, n, empty, ps, e1, err, etld,     *)
(*         crash]                                                          *)
(*   ps / e1  number of labels of the returned suffix / eTLD+1 when it is  *)
(*            a suffix of the input cut at a label boundary, -1 otherwise  *)
(*            (e1 = 0: an error was returned)                              *)
(***************************************************************************)
EXTENDS Psl, TLC, Json, IOUtils, Integers

Rec   == ndJsonDeserialize(IOEnv.TRACE)
Rules == ndJsonDeserialize(IOEnv.RULES)[1]

\* layer A ---------------------------------------------------------------
Structural(e) ==
    /\ ~e.crash
    /\ e.err \in {"none", "EmptyLabel", "CannotDeriveETldPlus1", "InvalidPublicSuffix"}
    /\ (~e.empty => e.ps \in 1..e.n)                  \* the suffix is label-aligned
    /\ (e.empty => e.err # "none")                     \* empty labels are rejected: no eTLD+1 ...
    /\ ((e.empty /\ e.n > 1) => ~e.etld)               \* ... and not an effective TLD (the empty string itself is left open)
    /\ (e.err = "none" => e.e1 = e.ps + 1 /\ e.e1 <= e.n)
    /\ ((~e.empty /\ e.ps \in 1..e.n) => (e.err = "none") = (e.n > e.ps))   \* an eTLD+1 exactly when a label is left over
    /\ (e.err # "none" => e.e1 = 0)

Canonical(N, W, E, e) ==
    LET s == SuffixLen(N, W, E, e.d) IN
    /\ e.ps = s
    /\ IF e.n > s THEN e.err = "none" /\ e.e1 = s + 1 ELSE e.err # "none"
    /\ e.etld = (e.n = s)

\* layer B: the exact error kinds of the code ----------------------------
Coded(e) ==
    IF e.empty /\ ~(e.n = 1) THEN e.err = "EmptyLabel"
    ELSE IF e.err # "none" THEN e.err = "CannotDeriveETldPlus1" ELSE TRUE

Result ==
    LET N == ToSet(Rules.normal)
        W == ToSet(Rules.wild)
        E == ToSet(Rules.exc)
        badA == { i \in 1..Len(Rec) :
                    ~(Structural(Rec[i]) /\ (Rec[i].k = "canon" => Canonical(N, W, E, Rec[i]))) }
        badB == { i \in 1..Len(Rec) : i \notin badA /\ ~Coded(Rec[i]) }
    IN [events |-> Len(Rec), rules |-> Cardinality(N) + Cardinality(W) + Cardinality(E),
        normal |-> Cardinality(N), wild |-> Cardinality(W), exc |-> Cardinality(E),
        viol |-> badA, drift |-> badB]

VARIABLE done
Init == done = FALSE
Next == /\ ~done
        /\ PrintT(<<"RESULT", ToJson(Result)>>)
        /\ done' = TRUE
Spec == Init /\ [][Next]_done
=============================================================================
