------------------------------ MODULE HidTrace ------------------------------
(***************************************************************************)
(* Trace validation for the CTAPHID code: events recorded by               *)
(* `pkverif hid ...` from the real Message::new/send and                   *)
(* ChannelHandler::handle_packet are consumed one per TLC state.           *)
(*                                                                         *)
(*   st    layer B: the receiver table predicted by Hid!Recv               *)
(*   obs   layer A: what was sent, fed and delivered, folded from the      *)
(*         logged events only                                              *)
(*   viol  layer-A invariants found false, as [run, l, inv] records        *)
(*   drift events layer B could not explain (model drift: not an alarm)    *)
(*                                                                         *)
(* Several runs are concatenated, separated by Reset events.               *)
(***************************************************************************)
EXTENDS Naturals, Integers, Sequences, FiniteSets, TLC, Json, IOUtils

Rec == ndJsonDeserialize(IOEnv.TRACE)

InitCap == 57
ContCap == 59
MaxCont == 128
H == INSTANCE Hid

ChanIds == 0..9

VARIABLES l, st, obs, viol, drift
vars == <<l, st, obs, viol, drift>>

NoObs == [run |-> -1, wf |-> TRUE,
          sent |-> [c \in ChanIds |-> <<>>],    \* messages sent on c: [id, cmd, len, npk]
          fed  |-> [c \in ChanIds |-> 0],       \* packets of c's stream fed so far
          dlv  |-> <<>>,                        \* logged deliveries [chan, cmd, len, peq]
          crashed |-> FALSE]

Init == /\ l = 1
        /\ st = [c \in ChanIds |-> H!Idle]
        /\ obs = NoObs
        /\ viol = {}
        /\ drift = {}

-----------------------------------------------------------------------------
(* Layer A                                                                 *)

\* --- sender (Send events) ---
PacketOK(e, i) ==
    LET q == H!Fragment(e.len)[i]
        p == e.pk[i]
    IN /\ p.kind = q.kind /\ p.seq = q.seq /\ p.dlen = q.dlen /\ p.off = q.off
       /\ (q.kind = "init" => p.bcnt = e.len)
       /\ p.size = 64 /\ p.chan /\ p.cmd /\ p.data /\ p.pad

SendViolations(e) ==
    (IF e.res = "ok" /\ ~(/\ Len(e.pk) = Len(H!Fragment(e.len))
                          /\ e.nbytes = 64 * Len(e.pk)
                          /\ \A i \in 1..Len(e.pk) : PacketOK(e, i))
     THEN {"C16.PacketLayout"} ELSE {})
    \cup (IF e.len > H!ProtocolMax /\ e.res # "refused" THEN {"C16.OverMaxNotRefused"} ELSE {})
    \cup (IF e.res \notin {"ok", "refused"} THEN {"C16.SendCrash"} ELSE {})

\* --- receiver (Feed events) ---
RECURSIVE PktsUpTo(_, _)
PktsUpTo(msgs, k) == IF k = 0 THEN 0 ELSE PktsUpTo(msgs, k - 1) + msgs[k].fedpk

DeliveredOn(o, c) == SelectSeq(o.dlv, LAMBDA d : d.chan = c)

ChannelOK(o, c) ==
    LET d == DeliveredOn(o, c)
        msgs == o.sent[c]
        \* whole messages (not abandoned by their sender) all of whose packets have been fed; abandoned ones are
        \* never delivered and do not disturb the whole ones that follow them on the channel
        full == { k \in 1..Len(msgs) : msgs[k].whole /\ PktsUpTo(msgs, k) <= o.fed[c] }
        whole == SelectSeq(msgs, LAMBDA m : m.whole)
    IN /\ Len(d) = Cardinality(full)
       /\ \A k \in 1..Len(d) : /\ k <= Len(whole)
                               /\ d[k].cmd = whole[k].cmd
                               /\ d[k].len = whole[k].len
                               /\ \E i \in 1..Len(d[k].peq) : d[k].peq[i] = whole[k].id

FeedViolations(o) ==
    (IF o.wf /\ ~o.crashed /\ \E c \in ChanIds : ~ChannelOK(o, c) THEN {"C16.ExactlyOnceInOrder"} ELSE {})
    \cup (IF \E i \in 1..Len(o.dlv) : o.dlv[i].chan \notin ChanIds \/ o.sent[o.dlv[i].chan] = <<>>
          THEN {"C16.DeliveryWithoutMessage"} ELSE {})
    \cup (IF o.crashed THEN {"C15.HidCrash", "C16.ReceiverCrash"} ELSE {})

ObserveSend(o, e) ==
    IF e.res = "ok"
    THEN [o EXCEPT !.sent[e.c] = Append(@, [id |-> e.id, cmd |-> e.cmd, len |-> e.len,
                                           npk |-> Len(e.pk), whole |-> e.cut = 0,
                                           fedpk |-> IF e.cut = 0 THEN Len(e.pk) ELSE e.cut])]
    ELSE o

ObserveFeed(o, e) ==
    LET o1 == [o EXCEPT !.fed[e.c] = @ + 1, !.crashed = (e.out = "crash")]
    IN IF e.out = "msg"
       THEN [o1 EXCEPT !.dlv = Append(@, [chan |-> e.dchan, cmd |-> e.dcmd, len |-> e.dlen2, peq |-> e.peq])]
       ELSE o1

-----------------------------------------------------------------------------
(* Layer B                                                                 *)

PacketOf(e) == [chan |-> e.c, kind |-> e.kind, cmd |-> e.cmd, bcnt |-> e.bcnt, seq |-> e.seq,
                avail |-> e.avail, id |-> e.id, off |-> e.off, dlen |-> e.dlen]

Explains(r, e) ==
    /\ r.out.some = (e.out = "msg")
    /\ e.out # "crash"
    /\ r.out.some => /\ r.out.chan = e.dchan
                     /\ r.out.cmd = e.dcmd
                     /\ r.out.len = e.dlen2
                     /\ (e.peq # <<>> => \E i \in 1..Len(e.peq) : r.out.parts = H!Ranges(e.peq[i], e.dlen2))

-----------------------------------------------------------------------------
Mark(names) == { [run |-> obs.run, l |-> l, inv |-> n] : n \in names }

Step ==
    /\ l <= Len(Rec)
    /\ l' = l + 1
    /\ LET e == Rec[l] IN
       CASE e.ev = "Reset" ->
              /\ st' = [c \in ChanIds |-> H!Idle]
              /\ obs' = [NoObs EXCEPT !.run = e.run, !.wf = e.wf]
              /\ UNCHANGED <<viol, drift>>
         [] e.ev = "Send" ->
              /\ obs' = ObserveSend(obs, e)
              /\ viol' = viol \cup Mark(SendViolations(e))
              /\ drift' = IF (e.res = "ok") = H!SenderAccepts(e.len) THEN drift
                          ELSE drift \cup {[run |-> obs.run, l |-> l, what |-> "SenderAccepts"]}
              /\ UNCHANGED st
         [] e.ev = "Feed" ->
              LET r == H!Recv(st, PacketOf(e))
                  o == ObserveFeed(obs, e)
              IN /\ obs' = o
                 /\ viol' = viol \cup Mark(FeedViolations(o))
                 /\ IF Explains(r, e)
                    THEN st' = r.rx /\ UNCHANGED drift
                    ELSE /\ st' = st
                         /\ drift' = drift \cup {[run |-> obs.run, l |-> l, what |-> "Recv"]}

Next == Step
Spec == Init /\ [][Next]_vars

\* printed once, in the state reached after the last event
Report ==
    (l = Len(Rec) + 1) =>
        PrintT(<<"RESULT", ToJson([events |-> Len(Rec), viol |-> viol, drift |-> drift])>>)

Consumed == TLCGet("stats").diameter = Len(Rec) + 1 \/
            PrintT(<<"UNCONSUMED", TLCGet("stats").diameter, Len(Rec)>>)
=============================================================================
