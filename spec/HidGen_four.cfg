\* thorough: four channels, one message each of 1..3 packets: every interleaving
CONSTANTS
  InitCap = 57
  ContCap = 59
  MaxCont = 128
  Channels = {1, 2, 3, 4}
  Strays = {}
  Lens = {57, 116, 175}
  Cmds = {1}
  MaxMsgs = 1
  Cuts = {0}
  MaxPkts = 3
  Export = TRUE
SPECIFICATION Spec
INVARIANT ExportInv
CHECK_DEADLOCK FALSE
