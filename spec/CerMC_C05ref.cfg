CONSTANTS
  Cfgs <- C05_CfgsRef
  StoreLists <- C05_Stores
  CerLists <- C05_Cers
  Known = {}
  Export = TRUE
SPECIFICATION Spec
INVARIANT PropertiesHold
INVARIANT ExportInv
CHECK_DEADLOCK FALSE
