\* quick: three channels and a stray, every packet-count/fill class of the small-capacity protocol
CONSTANTS
  InitCap = 2
  ContCap = 3
  MaxCont = 3
  Channels = {1, 2, 3}
  Strays = {9}
  Lens = {0,2,3,5,6,8,9,10}
  Cmds = {1}
  MaxMsgs = 1
  Cuts = {0}
  MaxPkts = 4
  Export = FALSE
SPECIFICATION Spec
VIEW view
INVARIANT ExactlyOnceInOrder
INVARIANT OrphansYieldNothing
INVARIANT NoCrossTalk
INVARIANT TypeOK
CHECK_DEADLOCK FALSE
