----------------------------- MODULE RpIdBatch -----------------------------
(* C01: one-state batch validation of assert_domain observations.          *)
EXTENDS RpId, TLC, Json, IOUtils, Integers

Rec   == ndJsonDeserialize(IOEnv.TRACE)
Rules == ndJsonDeserialize(IOEnv.RULES)[1]

Result ==
    LET N == ToSet(Rules.normal)
        W == ToSet(Rules.wild)
        E == ToSet(Rules.exc)
        SoundE(e) == IF e.provider = "default" THEN Sound(N, W, E, e) ELSE Sound(CustomN, CustomW, CustomE, e)
        CodedE(e) == IF e.provider = "default" THEN Coded(N, W, E, e) ELSE Coded(CustomN, CustomW, CustomE, e)
        badA == { i \in 1..Len(Rec) : ~SoundE(Rec[i]) }
        badB == { i \in 1..Len(Rec) : i \notin badA /\
                    IF Rec[i].kind = "valid" THEN (CodedE(Rec[i]) = "ok") # (Rec[i].res = "ok")
                    ELSE CodedE(Rec[i]) # Rec[i].res }
        accepted == Cardinality({ i \in 1..Len(Rec) : Rec[i].res = "ok" })
    IN [events |-> Len(Rec), accepted |-> accepted, viol |-> badA, drift |-> badB]

VARIABLE done
Init == done = FALSE
Next == /\ ~done
        /\ PrintT(<<"RESULT", ToJson(Result)>>)
        /\ done' = TRUE
Spec == Init /\ [][Next]_done
=============================================================================
