CONSTANTS
  Cfgs <- C02_HistMemCfgs
  StoreLists <- C02_HistMemStores
  CerLists <- C02_HistMemCers
  Known = {}
  Export = TRUE
SPECIFICATION Spec
INVARIANT PropertiesHold
INVARIANT ExportInv
CHECK_DEADLOCK FALSE
