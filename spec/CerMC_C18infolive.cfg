CONSTANTS
  Cfgs <- C18i_Cfgs
  StoreLists <- C11_Stores
  CerLists <- C18i_Cers
  Known = {}
  Export = FALSE
SPECIFICATION FairSpec
INVARIANT PropertiesHold
PROPERTY Termination
CHECK_DEADLOCK FALSE
