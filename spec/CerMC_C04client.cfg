CONSTANTS
  Cfgs <- C04_Cfgs
  StoreLists <- C04_Stores
  CerLists <- C04c_Cers
  Known = {}
  Export = TRUE
SPECIFICATION Spec
INVARIANT PropertiesHold
INVARIANT ExportInv
CHECK_DEADLOCK FALSE
