------------------------------- MODULE Decoders -------------------------------
(***************************************************************************)
(* C15: every public decoder of untrusted input returns a value or an      *)
(* error - it never panics, aborts, overflows the stack, or uses memory or *)
(* time out of proportion to the size of the input.                        *)
(*                                                                         *)
(* The case space: decoder x mutation applied to a valid encoding (or no   *)
(* valid encoding at all) x, for length-field rewrites, the declared       *)
(* length class.  `pkverif dec` concretises each case several times and    *)
(* runs it in an isolated child process under an address-space limit and a *)
(* per-case alarm, with a counting allocator; the parent turns a dead      *)
(* child into a `crash` / `timeout` observation.                           *)
(***************************************************************************)
EXTENDS Naturals, Integers, Sequences, FiniteSets, TLC, Json, IOUtils

CborDecoders == {"mcReq", "mcResp", "gaReq", "gaResp", "info", "hmac", "cose", "bytesCbor"}
JsonDecoders == {"jsonCreate", "jsonGet", "jsonCreated", "jsonAssertion", "clientData", "bytesJson"}
RawDecoders  == {"authdata", "u2fRequest", "u2fRegister", "u2fAuth", "hid", "bytesStr", "fingerprint", "psl", "rpid", "salts"}
Decs == CborDecoders \cup JsonDecoders \cup RawDecoders

Generic == {"valid", "truncate", "extend", "bitflip", "byteset", "empty", "random", "repeat"}
Declared == {"plus1", "2^16", "2^31", "2^32", "2^40", "2^63", "max"}      \* rewritten length fields
\* a byte-string / list member re-encoded as an array declaring far more elements than follow, with enough
\* well-formed elements present to run past any cap a decoder puts on its initial capacity
BigSeq == { p \o ":" \o d : p \in {"1025", "4097", "65537"}, d \in {"2^28", "2^32", "2^40", "max"} }
\* one list of the message grown to many pairwise different entries (descriptors with distinct ids, enumeration
\* lists with distinct strings): decoding must stay proportional to the input
ListDecoders == {"mcReq", "gaReq", "gaResp", "info", "jsonCreate", "jsonGet", "jsonCreated"}
Many == { w \o ":" \o n : w \in {"desc", "enum"}, n \in {"2000", "100000"} }
Cases ==
    [dec : Decs, mut : Generic, arg : {"none"}] \cup
    [dec : ListDecoders, mut : {"manyentries"}, arg : Many] \cup
    \* one item replaced by a well-formed value of another type (integers at the limits, empty / nested containers,
    \* booleans, null, undefined, floats, tags, indefinite-length items; JSON: null, numbers at the limits, nesting)
    [dec : CborDecoders \cup JsonDecoders \cup {"authdata"}, mut : {"retype"}, arg : {"none"}] \cup
    \* text inputs with characters whose case mapping changes their length, that IDNA maps to a dot or to nothing,
    \* combining marks, bidi controls, NUL
    [dec : {"psl", "rpid", "fingerprint", "bytesStr", "clientData", "jsonCreate", "jsonGet"}, mut : {"unicode"}, arg : {"none"}] \cup
    \* inputs of a fixed size given with every length around its multiples
    [dec : {"salts", "u2fRegister", "u2fAuth", "fingerprint", "bytesStr", "authdata"}, mut : {"setlen"},
     arg : {"0", "1", "31", "32", "33", "63", "64", "65", "95", "96", "97", "128", "160", "4096"}] \cup
    \* a string member resized consistently (well-formed CBOR, unexpected member length: key coordinates, hashes, ids)
    [dec : CborDecoders \cup {"authdata"}, mut : {"resize"}, arg : {"zero", "minus1", "plus1", "double"}] \cup
    [dec : CborDecoders, mut : {"bigseq"}, arg : BigSeq] \cup
    [dec : CborDecoders \cup {"authdata"}, mut : {"lenfield"}, arg : Declared] \cup
    [dec : CborDecoders \cup JsonDecoders \cup {"authdata"}, mut : {"deepnest"}, arg : {"64", "512", "100000"}] \cup
    [dec : {"u2fRequest", "u2fAuth", "hid", "authdata"}, mut : {"lenfield"}, arg : {"plus1", "minus1", "zero", "max"}] \cup
    [dec : {"hid"}, mut : {"shortpacket", "longpacket", "reorder", "seqrun", "orphan"}, arg : {"none"}]

\* memory: a fixed allowance plus a multiple of the input size; time: generous for inputs up to 64 KiB
\* the fixed allowance covers serde's own cap on pre-allocation from a length hint (1 MiB per sequence)
MemBound(len) == 4194304 + 256 * len
Judge(e) ==
    /\ e.outcome \in {"value", "error"}
    \* (written with divisions: TLC integers are 32-bit)
    /\ e.maxalloc \div 256 <= 16384 + e.len              \* maxalloc <= MemBound(len)
    /\ e.peak \div 1024 <= 16384 + e.len                 \* peak <= 4 * MemBound(len)
    /\ (e.len <= 200000 => e.cpums <= 2000)
    /\ e.cpums <= 2000 + e.len \div 1000               \* and, whatever the size, a microsecond per byte at most

Rec == IF "TRACE" \in DOMAIN IOEnv THEN ndJsonDeserialize(IOEnv.TRACE) ELSE <<>>
VARIABLE done
Init == done = FALSE
Next == /\ ~done
        /\ IF "TRACE" \in DOMAIN IOEnv
           THEN PrintT(<<"RESULT", ToJson([events |-> Len(Rec), viol |-> { i \in 1..Len(Rec) : ~Judge(Rec[i]) }])>>)
           ELSE PrintT(<<"CASES", ToJson(Cases)>>)
        /\ done' = TRUE
Spec == Init /\ [][Next]_done
=============================================================================
