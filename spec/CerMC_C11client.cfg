CONSTANTS
  Cfgs <- C11_Cfgs
  StoreLists <- C11_Stores
  CerLists <- C11c_Cers
  Known = {}
  Export = TRUE
SPECIFICATION Spec
INVARIANT PropertiesHold
INVARIANT ExportInv
CHECK_DEADLOCK FALSE
