SPECIFICATION Spec
INVARIANT Report
POSTCONDITION Consumed
CHECK_DEADLOCK FALSE
