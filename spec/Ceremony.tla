------------------------------ MODULE Ceremony ------------------------------
(***************************************************************************)
(* Layer B: the CTAP2 ceremonies of passkey-authenticator as coded         *)
(* (authenticator/make_credential.rs, get_assertion.rs, extensions.rs,     *)
(* check_user in authenticator.rs) - one step per call on a public trait   *)
(* (CredentialStore, UserValidationMethod), which are exactly the          *)
(* suspension points of the async code, plus the final result.             *)
(*                                                                         *)
(* A ceremony is a record `cer` (request, environment, program counter,    *)
(* locals); `Step(cfg, kind, store, nnew, cer)` is its next step: the new  *)
(* ceremony record, the new store, and the event the step emits.  The      *)
(* environment (answer of the user-validation step, which store calls      *)
(* fail with which status, where the operation is dropped) is part of the  *)
(* ceremony record, so a ceremony is deterministic once begun; TLC         *)
(* explores the choices at Begin.                                          *)
(*                                                                         *)
(* Cryptography is abstract: a credential's key is the credential, a       *)
(* signature names the key, the data and the client-data hash it covers.   *)
(***************************************************************************)
EXTENDS Naturals, Integers, Sequences, FiniteSets, TLC

\* CTAP status bytes (passkey-types/src/ctap2/error.rs)
InvalidParameter        == 2     \* CTAP1
LimitExceeded           == 21    \* 0x15
CredentialExcluded      == 25    \* 0x19
InvalidCredential       == 34    \* 0x22
UnsupportedAlgorithm    == 38    \* 0x26
OperationDenied         == 39    \* 0x27
UnsupportedOption       == 43    \* 0x2B
InvalidOption           == 44    \* 0x2C
NoCredentials           == 46    \* 0x2E
PinAuthInvalid          == 51    \* 0x33
UserVerificationBlocked == 60    \* 0x3C

-----------------------------------------------------------------------------
(* counters: 32-bit values as two 16-bit limbs (TLC integers are 32-bit signed) *)
NoCtr      == [hi |-> -1, lo |-> 0]
Ctr(h, l)  == [hi |-> h, lo |-> l]
CtrMax     == Ctr(65535, 65535)
HasCtr(c)  == c.hi >= 0
CtrInc(c)  == IF c.lo < 65535 THEN Ctr(c.hi, c.lo + 1) ELSE Ctr(c.hi + 1, 0)
CtrLess(a, b) == a.hi < b.hi \/ (a.hi = b.hi /\ a.lo < b.lo)
CtrOrZero(c)  == IF HasCtr(c) THEN c ELSE Ctr(0, 0)

NoCred == [id |-> "none", rp |-> "none", user |-> "none", ctr |-> NoCtr, hm |-> "none"]

SeqToSet(s) == { s[i] : i \in 1..Len(s) }
Ids(store) == { store[i].id : i \in 1..Len(store) }
Lookup(store, id) == LET I == { i \in 1..Len(store) : store[i].id = id }
                     IN IF I = {} THEN NoCred ELSE store[CHOOSE i \in I : TRUE]

\* replace the record with the same id, or append
Put(store, c) ==
    IF c.id \in Ids(store)
    THEN [i \in 1..Len(store) |-> IF store[i].id = c.id THEN c ELSE store[i]]
    ELSE Append(store, c)

-----------------------------------------------------------------------------
(* Credential stores.  `kind` selects the lookup semantics actually coded.  *)
(*   "reference"  the documented contract: id list AND rp, listing order    *)
(*   "memory"     MemoryStore: by-id lookup ignores the rp (IdLookupIgnoresRp, a  *)
(*                known finding); without ids: the rp's credentials         *)
(*   "slot"       Option<Passkey>: one slot, filtered by rp and ids         *)
(* result: [ok, err, found (sequence of credential records)]                *)

FindRes(ok, err, found) == [ok |-> ok, err |-> err, found |-> found]

Find(cfg, store, idsGiven, ids, rp) ==
    LET byRp  == SelectSeq(store, LAMBDA c : c.rp = rp)
        inIds(c) == \E i \in 1..Len(ids) : ids[i] = c.id
    IN CASE cfg.storeKind = "reference" ->
              LET r == IF idsGiven THEN SelectSeq(byRp, inIds) ELSE byRp
              IN IF r = <<>> /\ cfg.emptyAsErr THEN FindRes(FALSE, NoCredentials, <<>>)
                 ELSE FindRes(TRUE, 0, r)
         [] cfg.storeKind = "memory" ->
              LET r == IF idsGiven
                       THEN \* one hit per listed id, in list order, whatever the rp
                            LET hits == SelectSeq(ids, LAMBDA i : i \in Ids(store))
                            IN [k \in 1..Len(hits) |-> Lookup(store, hits[k])]
                       ELSE byRp
              IN IF r = <<>> THEN FindRes(FALSE, NoCredentials, <<>>) ELSE FindRes(TRUE, 0, r)
         [] cfg.storeKind = "slot" ->
              LET r == IF idsGiven THEN SelectSeq(byRp, inIds) ELSE byRp
              IN IF r = <<>> THEN FindRes(FALSE, NoCredentials, <<>>) ELSE FindRes(TRUE, 0, <<r[1]>>)

Save(cfg, store, c) ==
    CASE cfg.storeKind = "reference" ->
              \* a new record goes to the end of the listing, or to its front when the store lists newest first
              IF cfg.order = "newest" /\ c.id \notin Ids(store) THEN <<c>> \o store ELSE Put(store, c)
      [] cfg.storeKind = "memory"    -> Put(store, c)
      [] cfg.storeKind = "slot"      -> <<c>>            \* the slot is replaced

\* how the store capability turns the rk option into discoverability
Discoverable(cfg, rk) ==
    CASE cfg.disc = "full"    -> rk
      [] cfg.disc = "nondisc" -> FALSE
      [] cfg.disc = "forced"  -> TRUE

\* what listing order the harness reports for the store
Listing(cfg, store) == store

-----------------------------------------------------------------------------
(* events: [ev, d]                                                          *)

Ev(name, d) == [ev |-> name, d |-> d]

NoOpts == [rk |-> FALSE, up |-> FALSE, uv |-> FALSE]
StoreEvO(call, idsGiven, ids, rp, cred, ok, err, found, snap, faulted, opts) ==
    Ev("Store", [call |-> call, idsGiven |-> idsGiven, ids |-> ids, rp |-> rp, cred |-> cred, ok |-> ok,
                 err |-> err, found |-> found, snap |-> snap, faulted |-> faulted, opts |-> opts])
StoreEv(call, idsGiven, ids, rp, cred, ok, err, found, snap, faulted) ==
    StoreEvO(call, idsGiven, ids, rp, cred, ok, err, found, snap, faulted, NoOpts)

PromptEv(shown, up, uv, ans) ==
    Ev("Prompt", [shown |-> shown, up |-> up, uv |-> uv, ok |-> ans.kind = "ok",
                  pres |-> ans.kind = "ok" /\ ans.pres, verif |-> ans.kind = "ok" /\ ans.verif,
                  err |-> IF ans.kind = "ok" THEN 0 ELSE ans.err])

NoPrf == [sec |-> "absent", salt |-> "absent"]
NoCose == [labels |-> <<>>, kty |-> 0, alg |-> 0, crv |-> 0, point |-> FALSE]
Es256Cose == [labels |-> <<-3, -2, -1, 1, 3>>, kty |-> 2, alg |-> -7, crv |-> 1, point |-> TRUE]

\* what authenticatorGetInfo reports (get_info.rs): a function of the configuration only
NoInfo == [versions |-> <<>>, exts |-> <<>>, rk |-> FALSE, up |-> FALSE, uv |-> "absent", plat |-> FALSE, clientPin |-> "absent",
           transports |-> <<>>, maxMsgSize |-> FALSE, pinProtocols |-> FALSE]
InfoOf(cfg) == [versions |-> <<"FIDO_2_0", "U2F_V2">>,
                exts |-> IF cfg.hmac = "off" THEN <<>> ELSE <<"prf">>,      \* only the unsigned prf extension is announced
                rk |-> cfg.disc # "nondisc", up |-> cfg.upCap,
                uv |-> CASE cfg.uvCap = "configured" -> "true" [] cfg.uvCap = "unconfigured" -> "false" [] OTHER -> "absent",
                plat |-> FALSE, clientPin |-> "absent",
                \* the transports the authenticator was built with (cfg.tr): the default pair, none, or USB only
                transports |-> CASE cfg.tr = "empty" -> <<>> [] cfg.tr = "usb" -> <<"usb">> [] OTHER -> <<"internal", "hybrid">>,
                maxMsgSize |-> FALSE, pinProtocols |-> FALSE]

\* the part of an End event layer B predicts (the harness adds observation-only fields)
EndErr(code) ==
    [ok |-> FALSE, err |-> code, werr |-> "none", flags |-> <<>>, ctr |-> NoCtr, cred |-> "none", user |-> "none",
     rphash |-> "none", sigkey |-> "none", at |-> FALSE, ed |-> FALSE, idlen |-> 0,
     cose |-> NoCose, stored |-> NoCred, prfEnabled |-> "absent", prf1 |-> NoPrf, prf2 |-> NoPrf,
     \* observation-only fields: what the relying-party role reports about the bytes
     wf |-> TRUE, attid |-> "none", fresh |-> TRUE, keymatch |-> FALSE, fmt |-> "none", digest |-> "none",
     info |-> NoInfo,
     client |-> [present |-> FALSE], leaks |-> <<>>]

\* flag names in bit order, as the relying-party role lists them (BE and BS are always set by the library)
FlagSet(pres, verif, at) ==
    (IF pres THEN <<"UP">> ELSE <<>>) \o (IF verif THEN <<"UV">> ELSE <<>>) \o <<"BE", "BS">>
        \o (IF at THEN <<"AT">> ELSE <<>>)

-----------------------------------------------------------------------------
(* extension processing (authenticator/extensions.rs, extensions/hmac_secret.rs) *)

Clamp(n, lo, hi) == IF n < lo THEN lo ELSE IF n > hi THEN hi ELSE n

\* which secrets a new credential gets: "none" | "uv" | "both"
NewSecrets(cfg, req) ==
    LET requested == IF req.hs = "true" THEN TRUE
                     ELSE IF req.hs = "false" THEN FALSE
                     ELSE req.prf.given         \* hmac-secret absent: follows the presence of prf
        anyExt == req.hs # "absent" \/ req.prf.given
    IN IF cfg.hmac = "off" \/ ~anyExt \/ ~requested THEN "none"
       ELSE IF cfg.hmac = "withoutuv" THEN "both" ELSE "uv"

\* PRF evaluation: [err, first, second] ; uv selects the secret
\* salts: sequence of salt names (1 or 2)
PrfEval(cfg, hm, uv, salts) ==
    IF ~uv /\ hm # "both" THEN [err |-> UserVerificationBlocked, first |-> NoPrf, second |-> NoPrf]
    ELSE LET sec == IF uv THEN "uv" ELSE "nouv" IN
         [err |-> 0,
          first |-> [sec |-> sec, salt |-> salts[1]],
          \* SecondPrfOutputOnlyWithNoUvSupport: the second output is produced only when the
          \* authenticator is configured with the non-UV secret
          second |-> IF Len(salts) = 2 /\ cfg.hmac = "withoutuv" THEN [sec |-> sec, salt |-> salts[2]] ELSE NoPrf]

EvalSalts(n, prefix) == IF n = "one" THEN <<prefix \o "1">> ELSE <<prefix \o "1", prefix \o "2">>

\* make_credential: [err, enabled ("absent"|"true"|"false"), first, second]
McPrf(cfg, req, hm) ==
    IF ~req.prf.given \/ cfg.hmac = "off"
    THEN [err |-> 0, enabled |-> "absent", first |-> NoPrf, second |-> NoPrf]
    ELSE IF hm = "none"
    THEN [err |-> 0, enabled |-> "false", first |-> NoPrf, second |-> NoPrf]
    ELSE IF cfg.mc /\ req.prf.eval # "absent"
    THEN LET r == PrfEval(cfg, hm, req.uv, EvalSalts(req.prf.eval, "e"))
         IN [err |-> r.err, enabled |-> "true", first |-> r.first, second |-> r.second]
    ELSE [err |-> 0, enabled |-> "true", first |-> NoPrf, second |-> NoPrf]

\* get_assertion: the salts selected for the credential (per-credential entry wins), or <<>>
GaSalts(req, cid) ==
    LET hit == { i \in 1..Len(req.prf.byCred) : req.prf.byCred[i].id = cid }
    IN IF req.prf.byCredGiven /\ hit # {}
       THEN EvalSalts(req.prf.byCred[CHOOSE i \in hit : TRUE].n, cid \o ".")
       ELSE IF req.prf.eval # "absent" THEN EvalSalts(req.prf.eval, "e") ELSE <<>>

GaPrf(cfg, req, cred, verif) ==
    IF ~req.prf.given \/ cfg.hmac = "off" THEN [err |-> 0, first |-> NoPrf, second |-> NoPrf]
    ELSE IF cred.hm = "none" THEN [err |-> InvalidParameter, first |-> NoPrf, second |-> NoPrf]
    ELSE IF GaSalts(req, cred.id) = <<>> THEN [err |-> 0, first |-> NoPrf, second |-> NoPrf]
    ELSE PrfEval(cfg, cred.hm, verif, GaSalts(req, cred.id))

-----------------------------------------------------------------------------
(* the ceremony record                                                      *)

NewCer(api, op, req, env) ==
    [api |-> api, op |-> op, req |-> req, env |-> env, pc |-> "begin",
     nfall |-> 0,          \* fallible store calls made (index into env.faults)
     ncount |-> 0,         \* gate-able events emitted (Prompt, Store)
     pres |-> FALSE, verif |-> FALSE,       \* what the prompt reported
     found |-> NoCred, pend |-> 0,           \* get_assertion: located credential / pending error
     hit |-> FALSE,                          \* make_credential: exclude lookup found something
     newc |-> NoCred, serr |-> 0,            \* make_credential: the new credential; last save/update error
     prf |-> [err |-> 0, enabled |-> "absent", first |-> NoPrf, second |-> NoPrf],
     done |-> FALSE]

Fault(cer) == IF cer.nfall + 1 <= Len(cer.env.faults) THEN cer.env.faults[cer.nfall + 1] ELSE 0

\* result of a step
Res(cer, store, nnew, ev) == [cer |-> cer, store |-> store, nnew |-> nnew, ev |-> ev]

Finish(cer, store, nnew, d) == Res([cer EXCEPT !.done = TRUE, !.pc = "done"], store, nnew, Ev("End", d))

\* a gate-able event, or Cancel when the operation is dropped at this gate
Gated(cfg, cer, store, nnew, pc2, cer2, store2, ev) ==
    IF cer.env.cancelAt = cer.ncount
    THEN Res([cer EXCEPT !.done = TRUE, !.pc = "cancelled"], store, nnew, Ev("Cancel", [after |-> cer.ncount]))
    ELSE Res([cer2 EXCEPT !.pc = pc2, !.ncount = cer.ncount + 1], store2, nnew, ev)

\* End, or Cancel when the operation is dropped at the gate after its last call
Ended(cer, store, nnew, d) ==
    IF cer.ncount > 0 /\ cer.env.cancelAt = cer.ncount
    THEN Res([cer EXCEPT !.done = TRUE, !.pc = "cancelled"], store, nnew, Ev("Cancel", [after |-> cer.ncount]))
    ELSE Finish(cer, store, nnew, d)

\* the answer of the user-validation step.  kind "asked": a method that does what it is asked - presence always,
\* verification exactly when the call requires it (so two prompts of one ceremony may answer differently)
Ans(cer) == IF cer.env.uv.kind = "asked" THEN [kind |-> "ok", pres |-> TRUE, verif |-> cer.req.uv, err |-> 0] ELSE cer.env.uv

PromptDenied(cer) ==
    LET a == Ans(cer) IN
    IF a.kind # "ok" THEN a.err
    ELSE IF cer.req.up /\ ~a.pres THEN OperationDenied
    ELSE IF cer.req.uv /\ ~a.verif THEN OperationDenied
    ELSE 0

Supported == {"ES256"}
ChosenAlg(algs) == LET I == { i \in 1..Len(algs) : algs[i] \in Supported }
                   IN IF I = {} THEN "none" ELSE algs[CHOOSE i \in I : \A j \in I : i <= j]

FindStep(cfg, cer, store, nnew, pc2, idsGiven, ids, rp, onres(_, _)) ==
    LET f == Fault(cer)
        r == IF f # 0 THEN FindRes(FALSE, f, <<>>) ELSE Find(cfg, store, idsGiven, ids, rp)
        cer2 == onres([cer EXCEPT !.nfall = cer.nfall + 1], r)
    IN Gated(cfg, cer, store, nnew, pc2, cer2, store,
             StoreEv("find", idsGiven, ids, rp, NoCred, r.ok, r.err,
                     [i \in 1..Len(r.found) |-> r.found[i].id], Listing(cfg, store), f # 0))

InfoStep(cfg, cer, store, nnew, pc2) ==
    Gated(cfg, cer, store, nnew, pc2, cer, store,
          StoreEv("info", FALSE, <<>>, "none", NoCred, TRUE, 0, <<>>, Listing(cfg, store), FALSE))

WriteStep(cfg, cer, store, nnew, pc2, call, c) ==
    LET f == Fault(cer)
        store2 == IF f # 0 THEN store ELSE Save(cfg, store, c)
        cer2 == [cer EXCEPT !.nfall = cer.nfall + 1, !.serr = f]
        \* save_credential is handed the request's options
        opts == IF call = "save" THEN [rk |-> cer.req.rk, up |-> cer.req.up, uv |-> cer.req.uv] ELSE NoOpts
    IN Gated(cfg, cer, store, nnew, pc2, cer2, store2,
             StoreEvO(call, FALSE, <<>>, c.rp, c, f = 0, f, <<>>, Listing(cfg, store2), f # 0, opts))

-----------------------------------------------------------------------------
(* authenticatorMakeCredential                                              *)

McAfterRk(cfg, cer, store, nnew) ==
    IF cer.req.pinAuth THEN Ended(cer, store, nnew, EndErr(UnsupportedOption))
    ELSE LET hm == NewSecrets(cfg, cer.req)
             p == McPrf(cfg, cer.req, hm)
             \* the credential id is drawn here but becomes observable only when the credential is saved;
             \* the abstract name is assigned in order of appearance (at the save)
             c == [id |-> "pending", rp |-> cer.req.rp, user |-> "?", ctr |-> NoCtr, hm |-> hm]
         IN IF p.err # 0 THEN Ended(cer, store, nnew, EndErr(p.err))
            ELSE InfoStep(cfg, [cer EXCEPT !.newc = c, !.prf = p], store, nnew, "mc.info")

McAfterExclude(cfg, cer, store, nnew) ==
    IF ChosenAlg(cer.req.algs) = "none" THEN Ended(cer, store, nnew, EndErr(UnsupportedAlgorithm))
    ELSE IF cer.req.rk THEN InfoStep(cfg, cer, store, nnew, "mc.rkinfo")
    ELSE McAfterRk(cfg, cer, store, nnew)

McStep(cfg, cer, store, nnew) ==
    CASE cer.pc = "begin" ->
           IF ~cer.req.up THEN Finish(cer, store, nnew, EndErr(InvalidOption))
           ELSE IF cer.req.uv /\ cfg.uvCap # "configured" THEN Finish(cer, store, nnew, EndErr(UnsupportedOption))
           ELSE Gated(cfg, cer, store, nnew, "mc.prompted",
                      [cer EXCEPT !.pres = Ans(cer).kind = "ok" /\ Ans(cer).pres,
                                  !.verif = Ans(cer).kind = "ok" /\ Ans(cer).verif],
                      store, PromptEv("none", cer.req.up, cer.req.uv, Ans(cer)))
      [] cer.pc = "mc.prompted" ->
           IF PromptDenied(cer) # 0 THEN Ended(cer, store, nnew, EndErr(PromptDenied(cer)))
           ELSE IF cer.req.excludeGiven /\ cer.req.exclude # <<>>
           THEN FindStep(cfg, cer, store, nnew, "mc.excluded", TRUE, cer.req.exclude, cer.req.rp,
                         \* ExcludeLookupErrorIgnored: only Ok(non-empty) excludes
                         LAMBDA c, r : [c EXCEPT !.hit = r.ok /\ r.found # <<>>])
           ELSE McAfterExclude(cfg, cer, store, nnew)
      [] cer.pc = "mc.excluded" ->
           IF cer.hit THEN Ended(cer, store, nnew, EndErr(CredentialExcluded))
           ELSE McAfterExclude(cfg, cer, store, nnew)
      [] cer.pc = "mc.rkinfo" ->
           IF cfg.disc = "nondisc" THEN Ended(cer, store, nnew, EndErr(UnsupportedOption))
           ELSE McAfterRk(cfg, cer, store, nnew)
      [] cer.pc = "mc.info" ->
           LET c == [cer.newc EXCEPT !.id = "n" \o ToString(nnew + 1),
                                     !.user = IF Discoverable(cfg, cer.req.rk) THEN cer.req.user ELSE "none",
                                     !.ctr = IF cfg.counterOn THEN Ctr(0, 0) ELSE NoCtr]
           IN LET r == WriteStep(cfg, [cer EXCEPT !.newc = c], store, nnew, "mc.saved", "save", c)
              IN [r EXCEPT !.nnew = IF r.ev.ev = "Cancel" THEN nnew ELSE nnew + 1]
      [] cer.pc = "mc.saved" ->
           IF cer.serr # 0 THEN Ended(cer, store, nnew, EndErr(cer.serr))
           ELSE Ended(cer, store, nnew,
                      [EndErr(0) EXCEPT !.ok = TRUE,
                         !.flags = FlagSet(cer.pres, cer.verif, TRUE),
                         !.ctr = CtrOrZero(cer.newc.ctr), !.cred = cer.newc.id,
                         !.rphash = cer.req.rp, !.at = TRUE,
                         !.idlen = Clamp(cfg.idLen, 16, 64), !.cose = Es256Cose,
                         !.stored = Lookup(store, cer.newc.id),
                         !.attid = cer.newc.id, !.keymatch = TRUE, !.fmt = "None",
                         !.prfEnabled = cer.prf.enabled, !.prf1 = cer.prf.first, !.prf2 = cer.prf.second])

-----------------------------------------------------------------------------
(* authenticatorGetAssertion                                                *)

GaSign(cfg, cer, store, nnew, cred) ==
    LET p == GaPrf(cfg, cer.req, cred, cer.verif)
    IN IF p.err # 0 THEN Ended(cer, store, nnew, EndErr(p.err))
       ELSE Ended(cer, store, nnew,
                  [EndErr(0) EXCEPT !.ok = TRUE,
                     !.flags = FlagSet(cer.pres, cer.verif, FALSE),
                     !.ctr = CtrOrZero(cred.ctr), !.cred = cred.id, !.user = cred.user,
                     !.rphash = cer.req.rp, !.sigkey = cred.id,
                     !.stored = Lookup(store, cred.id),
                     !.prf1 = p.first, !.prf2 = p.second])

GaStep(cfg, cer, store, nnew) ==
    CASE cer.pc = "begin" ->
           LET given == cer.req.allowGiven /\ cer.req.allow # <<>>
           IN FindStep(cfg, cer, store, nnew, "ga.found", given, IF given THEN cer.req.allow ELSE <<>>, cer.req.rp,
                       LAMBDA c, r : [c EXCEPT !.found = IF r.ok /\ r.found # <<>> THEN r.found[1] ELSE NoCred,
                                               !.pend = IF ~r.ok THEN r.err
                                                        ELSE IF r.found = <<>> THEN NoCredentials ELSE 0])
      [] cer.pc = "ga.found" ->
           IF cer.req.pinAuth THEN Ended(cer, store, nnew, EndErr(PinAuthInvalid))
           ELSE IF cer.req.rk THEN Ended(cer, store, nnew, EndErr(UnsupportedOption))
           ELSE IF cer.req.uv /\ cfg.uvCap # "configured" THEN Ended(cer, store, nnew, EndErr(UnsupportedOption))
           ELSE Gated(cfg, cer, store, nnew, "ga.prompted",
                      [cer EXCEPT !.pres = Ans(cer).kind = "ok" /\ Ans(cer).pres,
                                  !.verif = Ans(cer).kind = "ok" /\ Ans(cer).verif],
                      store, PromptEv(cer.found.id, cer.req.up, cer.req.uv, Ans(cer)))
      [] cer.pc = "ga.prompted" ->
           IF PromptDenied(cer) # 0 THEN Ended(cer, store, nnew, EndErr(PromptDenied(cer)))
           ELSE IF cer.pend # 0 THEN Ended(cer, store, nnew, EndErr(cer.pend))
           ELSE IF HasCtr(cer.found.ctr)
           THEN IF cer.found.ctr = CtrMax
                THEN Ended(cer, store, nnew, EndErr(LimitExceeded))        \* CounterAtMax
                ELSE LET c == [cer.found EXCEPT !.ctr = CtrInc(cer.found.ctr)]
                     IN WriteStep(cfg, [cer EXCEPT !.found = c], store, nnew, "ga.updated", "update", c)
           ELSE GaSign(cfg, cer, store, nnew, cer.found)
      [] cer.pc = "ga.updated" ->
           IF cer.serr # 0 THEN Ended(cer, store, nnew, EndErr(cer.serr))
           ELSE GaSign(cfg, cer, store, nnew, cer.found)

(* authenticatorGetInfo: one capability query of the store, then the response *)
InfoOpStep(cfg, cer, store, nnew) ==
    CASE cer.pc = "begin" -> InfoStep(cfg, cer, store, nnew, "info.done")
      [] cer.pc = "info.done" -> Ended(cer, store, nnew, [EndErr(0) EXCEPT !.ok = TRUE, !.info = InfoOf(cfg)])

(* U2F (u2f.rs): register saves a counter-bearing credential for (application, key handle) without any prompt;
   authenticate looks the key handle up under the application and signs with the caller's counter and presence byte *)
U2fOther == 127      \* U2FError::Other

U2fStep(cfg, cer, store, nnew) ==
    CASE cer.pc = "begin" /\ cer.op = "reg" ->
           LET c == [id |-> cer.req.handle, rp |-> cer.req.rp, user |-> "none", ctr |-> Ctr(0, 0), hm |-> "none"]
               r == WriteStep(cfg, [cer EXCEPT !.newc = c, !.req = [cer.req EXCEPT !.rk = FALSE, !.up = FALSE, !.uv = FALSE]],
                              store, nnew, "u2f.saved", "save", c)
           IN r
      [] cer.pc = "u2f.saved" ->
           IF cer.serr # 0 THEN Ended(cer, store, nnew, EndErr(U2fOther))
           ELSE Ended(cer, store, nnew, [EndErr(0) EXCEPT !.ok = TRUE, !.cred = cer.newc.id, !.sigkey = cer.newc.id,
                                          !.rphash = cer.req.rp, !.stored = Lookup(store, cer.newc.id), !.keymatch = TRUE,
                                          !.ctr = Ctr(0, 0)])
      [] cer.pc = "begin" /\ cer.op = "auth" ->
           FindStep(cfg, cer, store, nnew, "u2f.found", TRUE, <<cer.req.handle>>, cer.req.rp,
                    LAMBDA c, r : [c EXCEPT !.found = IF r.ok /\ r.found # <<>> THEN r.found[1] ELSE NoCred,
                                            !.pend = IF r.ok /\ r.found # <<>> THEN 0 ELSE U2fOther])
      [] cer.pc = "u2f.found" ->
           IF cer.pend # 0 THEN Ended(cer, store, nnew, EndErr(U2fOther))
           ELSE Ended(cer, store, nnew, [EndErr(0) EXCEPT !.ok = TRUE, !.cred = cer.found.id, !.sigkey = cer.found.id,
                                          !.rphash = cer.req.rp, !.stored = Lookup(store, cer.found.id),
                                          !.ctr = cer.req.counter, !.flags = cer.req.presence])

Step(cfg, cer, store, nnew) ==
    CASE cer.api = "u2f" -> U2fStep(cfg, cer, store, nnew)
      [] cer.op = "mc" -> McStep(cfg, cer, store, nnew)
      [] cer.op = "ga" -> GaStep(cfg, cer, store, nnew)
      [] cer.op = "info" -> InfoOpStep(cfg, cer, store, nnew)

=============================================================================
