CONSTANTS
  Cfgs <- C09_Cfgs
  StoreLists <- C09_Stores
  CerLists <- C09_Cers
  Known = {}
  Export = TRUE
SPECIFICATION Spec
INVARIANT PropertiesHold
INVARIANT ExportInv
CHECK_DEADLOCK FALSE
