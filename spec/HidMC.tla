------------------------------- MODULE HidMC -------------------------------
(***************************************************************************)
(* Interleaving model for C16: several channels transmit concurrently, the *)
(* packets of each channel arrive in the channel's own order but the       *)
(* channels are interleaved arbitrarily at one receiver.                   *)
(*                                                                         *)
(*  plan[c]  the messages channel c transmits, in order; a message is      *)
(*           [id, cmd, len]; a "stray" channel transmits only orphan       *)
(*           continuation packets (kind = "orphan"); a message with        *)
(*           cut = k > 0 is abandoned after its first k packets            *)
(*  pos[c]   how many packets of c's stream the receiver has been fed      *)
(*  rx       the receiver's per-channel table (Hid!Recv)                   *)
(*  dlv      every delivery so far, in order: [chan, cmd, len, parts, at]  *)
(*  hist     the schedule so far (channel picks) - hidden by VIEW in the   *)
(*           model-checking configuration, kept for behaviour export       *)
(***************************************************************************)
EXTENDS Hid, TLC, Json

CONSTANTS Channels,      \* set of channel numbers that transmit messages
          Strays,        \* set of channel numbers that only send orphan continuations
          Lens,          \* payload lengths the channels may choose from
          Cmds,          \* abstract command values a message may carry
          MaxMsgs,       \* messages per channel (1..MaxMsgs)
          MaxPkts,       \* bound on packets per channel stream
          Cuts,          \* {0}: every message is transmitted whole; k > 0 in the set: a message may be abandoned
                         \* after its first k packets (k less than its packet count) - the sender goes away
          Export         \* TRUE: print every complete behaviour as JSON

VARIABLES plan, pos, rx, dlv, hist
vars == <<plan, pos, rx, dlv, hist>>
view == <<plan, pos, rx, dlv>>

All == Channels \cup Strays

RECURSIVE Concat(_)
Concat(ss) == IF ss = <<>> THEN <<>> ELSE Head(ss) \o Concat(Tail(ss))

\* the packets of a message that are actually transmitted
Sent(c, m) == IF m.cut = 0 THEN Packets(c, m) ELSE SubSeq(Packets(c, m), 1, m.cut)
NSent(m) == IF m.cut = 0 THEN Len(Fragment(m.len)) ELSE m.cut

Stream(c) ==
    IF c \in Strays
    THEN [i \in 1..2 |-> [chan |-> c, kind |-> "cont", cmd |-> 0, bcnt |-> 0, seq |-> i - 1,
                           avail |-> ContCap, id |-> 0, off |-> 0, dlen |-> ContCap]]
    ELSE Concat([k \in 1..Len(plan[c]) |-> Sent(c, plan[c][k])])

\* number of packets of the first k messages of c
RECURSIVE PktsUpTo(_, _)
PktsUpTo(c, k) == IF k = 0 THEN 0
                  ELSE PktsUpTo(c, k - 1) + NSent(plan[c][k])

PlanOK(p) == /\ \A k \in 1..Len(p) : SenderAccepts(p[k].len) /\ p[k].cut < Len(Fragment(p[k].len))
             /\ LET n[k \in 0..Len(p)] == IF k = 0 THEN 0 ELSE n[k-1] + NSent(p[k])
                IN n[Len(p)] <= MaxPkts

\* message ids are c*10 + k so that payloads of different messages differ
Plans(c) == { p \in UNION {[1..n -> [id : {0}, cmd : Cmds, len : Lens, cut : Cuts]] : n \in 1..MaxMsgs} :
                /\ PlanOK(p) }
Tag(c, p) == [k \in 1..Len(p) |-> [p[k] EXCEPT !.id = c * 10 + k]]

Init == /\ plan \in [Channels -> UNION {Plans(c) : c \in Channels}]
        /\ \A c \in Channels : plan[c] \in Plans(c)
        /\ pos = [c \in All |-> 0]
        /\ rx = [c \in All |-> Idle]
        /\ dlv = <<>>
        /\ hist = <<>>

TaggedPlan(c) == Tag(c, plan[c])

StreamT(c) ==
    IF c \in Strays THEN Stream(c)
    ELSE Concat([k \in 1..Len(plan[c]) |-> Sent(c, TaggedPlan(c)[k])])

Feed(c) ==
    /\ pos[c] < Len(StreamT(c))
    /\ LET p == StreamT(c)[pos[c] + 1]
           r == Recv(rx, p)
       IN /\ rx' = r.rx
          /\ dlv' = IF r.out.some THEN Append(dlv, r.out) ELSE dlv
    /\ pos' = [pos EXCEPT ![c] = @ + 1]
    /\ hist' = Append(hist, c)
    /\ UNCHANGED plan

Done == \A c \in All : pos[c] = Len(StreamT(c))

\* The same step, named by what the receiver did with the packet, so that TLC's
\* per-action coverage shows every receiver branch was exercised.
Outcome(c) ==
    LET p == StreamT(c)[pos[c] + 1]
        r == Recv(rx, p)
    IN IF p.kind = "init"
       THEN IF r.out.some THEN "InitComplete" ELSE "InitPartial"
       ELSE IF ~rx[c].busy THEN "Orphan"
            ELSE IF r.out.some THEN "ContComplete"
            ELSE IF r.rx = rx THEN "ContDropped" ELSE "ContExtend"

FeedInitComplete(c) == pos[c] < Len(StreamT(c)) /\ Outcome(c) = "InitComplete" /\ Feed(c)
FeedInitPartial(c)  == pos[c] < Len(StreamT(c)) /\ Outcome(c) = "InitPartial" /\ Feed(c)
FeedContExtend(c)   == pos[c] < Len(StreamT(c)) /\ Outcome(c) = "ContExtend" /\ Feed(c)
FeedContComplete(c) == pos[c] < Len(StreamT(c)) /\ Outcome(c) = "ContComplete" /\ Feed(c)
FeedOrphan(c)       == pos[c] < Len(StreamT(c)) /\ Outcome(c) = "Orphan" /\ Feed(c)
FeedContDropped(c)  == pos[c] < Len(StreamT(c)) /\ Outcome(c) = "ContDropped" /\ Feed(c)

Next == \E c \in All : \/ FeedInitComplete(c) \/ FeedInitPartial(c) \/ FeedContExtend(c)
                       \/ FeedContComplete(c) \/ FeedOrphan(c) \/ FeedContDropped(c)
Spec == Init /\ [][Next]_vars

-----------------------------------------------------------------------------
(* Layer A: C16 as an invariant over what was fed and what was delivered   *)

DeliveredOn(c) == SelectSeq(dlv, LAMBDA d : d.chan = c)

\* whole messages of c all of whose packets have been fed
FullyFed(c) == { k \in 1..Len(plan[c]) : plan[c][k].cut = 0 /\ PktsUpTo(c, k) <= pos[c] }
Whole(c) == SelectSeq(TaggedPlan(c), LAMBDA m : m.cut = 0)

\* every whole message is delivered exactly once, in order, with its own command and payload - whatever was
\* abandoned on the channel before it; an abandoned message is never delivered
ExactlyOnceInOrder ==
    \A c \in Channels :
        LET d == DeliveredOn(c) IN
        /\ Len(d) = Cardinality(FullyFed(c))
        /\ \A k \in 1..Len(d) :
              LET m == Whole(c)[k] IN
              /\ d[k].cmd = m.cmd
              /\ d[k].len = m.len
              /\ d[k].parts = Ranges(m.id, m.len)

OrphansYieldNothing == \A c \in Strays : DeliveredOn(c) = <<>> /\ ~rx[c].busy

\* nothing is ever delivered for a channel that did not transmit it
NoCrossTalk == \A i \in 1..Len(dlv) : dlv[i].chan \in Channels

TypeOK == /\ \A c \in All : rx[c].got <= rx[c].total \/ ~rx[c].busy

ExportInv ==
    (Export /\ Done) =>
        PrintT(<<"REPLAY", ToJson([plan |-> [c \in Channels |-> TaggedPlan(c)],
                                   strays |-> Strays, sched |-> hist,
                                   dlv |-> [i \in 1..Len(dlv) |-> [chan |-> dlv[i].chan, cmd |-> dlv[i].cmd, len |-> dlv[i].len]]])>>)

=============================================================================
