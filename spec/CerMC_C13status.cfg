CONSTANTS
  Cfgs <- C13_Cfgs
  StoreLists <- C04_Stores
  CerLists <- C13_Cers
  Known = {}
  Export = TRUE
SPECIFICATION Spec
INVARIANT PropertiesHold
INVARIANT ExportInv
CHECK_DEADLOCK FALSE
