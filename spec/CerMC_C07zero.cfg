CONSTANTS
  Cfgs <- C07_Cfgs
  StoreLists <- C07_Stores
  CerLists <- C07z_Cers
  Known = {"C07.RegistrationSavedFirst", "C07.AssertionCounterAccepted", "C07.StoreErrorReported", "C07.U2fStoreErrorReported", "C17.RegistrationSucceeds", "C17.Authentication", "C02.SupportedListAccepted", "C03.NoEligibleCredential"}
  Export = TRUE
SPECIFICATION Spec
INVARIANT ExportInv
CHECK_DEADLOCK FALSE
