CONSTANTS
  Cfgs <- C09c_Cfgs
  StoreLists <- C09_Stores
  CerLists <- C09c_Cers
  Known = {}
  Export = TRUE
SPECIFICATION Spec
INVARIANT PropertiesHold
INVARIANT ExportInv
CHECK_DEADLOCK FALSE
