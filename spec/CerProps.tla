------------------------------ MODULE CerProps ------------------------------
(***************************************************************************)
(* Layer A: the listed properties, written once, over an observation       *)
(* summary `obs` folded from observable events only (requests, prompts,    *)
(* store calls with their results and snapshots, results as a relying      *)
(* party reads them).  Nothing here refers to Ceremony.tla's program       *)
(* counters: the same definitions judge the model's events (CerMC.tla) and *)
(* the events recorded from the real code (CerTrace.tla).                  *)
(*                                                                         *)
(* `Violated(obs)` is the set of invariant names that are false in obs.    *)
(***************************************************************************)
EXTENDS Naturals, Integers, Sequences, FiniteSets, TLC

NoCtrA == [hi |-> -1, lo |-> 0]
HasCtrA(c) == c.hi >= 0
CtrIncA(c) == IF c.lo < 65535 THEN [hi |-> c.hi, lo |-> c.lo + 1] ELSE [hi |-> c.hi + 1, lo |-> 0]
CtrLessA(a, b) == a.hi < b.hi \/ (a.hi = b.hi /\ a.lo < b.lo)
CtrMaxA == [hi |-> 65535, lo |-> 65535]
Zero == [hi |-> 0, lo |-> 0]

ToSetA(s) == { s[i] : i \in 1..Len(s) }
NoCredA == [id |-> "none", rp |-> "none", user |-> "none", ctr |-> NoCtrA, hm |-> "none"]
Get(snap, id) == LET I == { i \in 1..Len(snap) : snap[i].id = id }
                 IN IF I = {} THEN NoCredA ELSE snap[CHOOSE i \in I : TRUE]
Has(snap, id) == \E i \in 1..Len(snap) : snap[i].id = id

ClampA(n, lo, hi) == IF n < lo THEN lo ELSE IF n > hi THEN hi ELSE n

-----------------------------------------------------------------------------
NoObs ==
    [run |-> -1, cfg |-> [storeKind |-> "none"], cfg0 |-> [storeKind |-> "none"], active |-> FALSE,
     b |-> [api |-> "none"],          \* the Begin payload of the ceremony in progress / just finished
     snap0 |-> <<>>,                  \* the store when the ceremony began
     snap |-> <<>>,                   \* the latest snapshot seen
     evs |-> <<>>,                    \* events of the ceremony, in order (without Begin)
     last |-> "Reset",
     cers |-> <<>>,                   \* finished ceremonies of this run: [b, evs, snap0, snap]
     prevRun |-> [valid |-> FALSE]]   \* the previous run: [valid, run, cfg, cers] (non-interference, trait = direct)

Observe(o, e) ==
    CASE e.ev = "Reset" ->
           [NoObs EXCEPT !.run = e.run, !.cfg = e.cfg, !.cfg0 = e.cfg, !.snap = e.store, !.snap0 = e.store,
                         !.prevRun = IF o.run >= 0 THEN [valid |-> TRUE, run |-> o.run, cfg |-> o.cfg0, cers |-> o.cers]
                                     ELSE o.prevRun]
      [] e.ev = "Reconfig" ->       \* the environment changed between two ceremonies
           \* (the ceremony that finished before the change was judged under the configuration it ran with: it is no
           \* longer the "current" one once the configuration differs)
           [o EXCEPT !.cfg = e.d.cfg, !.b = [api |-> "none"], !.evs = <<>>, !.last = "Reconfig", !.active = FALSE]
      [] e.ev = "Begin" ->
           [o EXCEPT !.active = TRUE, !.b = e.d, !.snap0 = o.snap, !.evs = <<>>, !.last = "Begin"]
      [] e.ev = "Store" ->
           [o EXCEPT !.snap = e.d.snap, !.evs = Append(o.evs, e), !.last = "Store"]
      [] e.ev = "Snap" ->
           [o EXCEPT !.snap = e.d.snap, !.active = FALSE, !.last = "Snap",
                     !.cers = Append(o.cers, [b |-> o.b, evs |-> o.evs, snap0 |-> o.snap0, snap |-> e.d.snap])]
      [] OTHER ->
           [o EXCEPT !.evs = Append(o.evs, e), !.last = e.ev]

-----------------------------------------------------------------------------
(* helpers over the events of the current ceremony                          *)

Evs(o, name) == SelectSeq(o.evs, LAMBDA e : e.ev = name)
Prompts(o) == Evs(o, "Prompt")
Ends(o) == Evs(o, "End")
StoreCalls(o, call) == SelectSeq(o.evs, LAMBDA e : e.ev = "Store" /\ e.d.call = call)
Finished(o) == o.last = "Snap"                      \* the ceremony is over and its final snapshot is known
EndOk(o) == Ends(o) # <<>> /\ Ends(o)[1].d.ok
EndD(o) == Ends(o)[1].d
Cancelled(o) == Evs(o, "Cancel") # <<>>
Crashed(o) == Evs(o, "Crash") # <<>>
IsClient(o) == o.b.api = "client"
\* The WebAuthn mapping the properties name: presence always required, verification unless discouraged,
\* resident key from residentKey / requireResidentKey / authenticator capability.
ExpRk(o) ==
    LET r == o.b.req IN
    IF o.b.op # "mc" \/ ~r.authSel THEN FALSE
    ELSE CASE r.residentKey = "required"    -> TRUE
           [] r.residentKey = "preferred"   -> o.cfg.disc # "nondisc"
           [] r.residentKey = "discouraged" -> FALSE
           [] OTHER                         -> r.requireRk
ExpUv(o) == IF o.b.op = "mc" /\ ~o.b.req.authSel THEN TRUE ELSE o.b.req.uvreq # "discouraged"
Req(o) == IF IsClient(o)
          THEN [o.b.req EXCEPT !.up = TRUE, !.uv = ExpUv(o), !.rk = ExpRk(o),
                               !.algs = IF o.b.op = "mc" /\ o.b.req.algs = <<>> THEN <<"ES256", "RS256">> ELSE o.b.req.algs]
          ELSE o.b.req
ErrIs(o, code) == EndD(o).err = code \/ (code = 46 /\ EndD(o).werr = "CredentialNotFound")
Lower(o) == o.b.api \in {"ctap2", "trait", "client"}
IsMc(o) == o.b.op = "mc"
IsGa(o) == o.b.op = "ga"
NoFaults(o) == \A i \in 1..Len(o.b.env.faults) : o.b.env.faults[i] = 0

\* index of the first event of a kind, 0 if none
FirstIdx(o, P(_)) == LET I == { i \in 1..Len(o.evs) : P(o.evs[i]) }
                     IN IF I = {} THEN 0 ELSE CHOOSE i \in I : \A j \in I : i <= j

\* a prompt whose answer satisfies what the request required
Satisfied(o, p) == p.d.ok /\ (Req(o).up => p.d.pres) /\ (Req(o).uv => p.d.verif)
ConsentBefore(o, i) == \E j \in 1..(i - 1) : o.evs[j].ev = "Prompt" /\ Satisfied(o, o.evs[j])
ConsentGiven(o) == \E j \in 1..Len(o.evs) : o.evs[j].ev = "Prompt" /\ Satisfied(o, o.evs[j])

SnapSet(s) == ToSetA(s)
Unchanged(o) == SnapSet(o.snap) = SnapSet(o.snap0) /\ Len(o.snap) = Len(o.snap0)

Discov(cfg, rk) == CASE cfg.disc = "full" -> rk [] cfg.disc = "nondisc" -> FALSE [] OTHER -> TRUE

NonEmptyAllow(o) == Req(o).allowGiven /\ Req(o).allow # <<>>
NonEmptyExclude(o) == Req(o).excludeGiven /\ Req(o).exclude # <<>>

Supported == {"ES256"}

-----------------------------------------------------------------------------
(* C04 - consent                                                            *)

C04_ConsentBeforeSave(o) ==
    \A i \in 1..Len(o.evs) :
        (o.evs[i].ev = "Store" /\ o.evs[i].d.call = "save" /\ o.b.api # "u2f") => ConsentBefore(o, i)

C04_ConsentBeforeSignature(o) ==
    (IsGa(o) /\ EndOk(o)) => ConsentBefore(o, Len(o.evs) + 1)

C04_FlagsTruthful(o) ==
    EndOk(o) /\ o.b.api # "u2f" /\ o.b.op \in {"mc", "ga"} =>
        /\ Prompts(o) # <<>>
        /\ LET p == Prompts(o)[Len(Prompts(o))].d
               f == ToSetA(EndD(o).flags)
           IN ("UP" \in f) = p.pres /\ ("UV" \in f) = p.verif

\* the cases the property lists as "return an error and leave the store untouched"
ConsentMissing(o) ==
    /\ o.b.op \in {"mc", "ga"}
    /\ \/ Req(o).uv /\ o.cfg.uvCap # "configured"
       \/ IsMc(o) /\ ~Req(o).up
       \/ \E j \in 1..Len(o.evs) : o.evs[j].ev = "Prompt" /\ ~Satisfied(o, o.evs[j])

C04_NoConsentNoEffect(o) ==
    (Finished(o) /\ Lower(o) /\ ConsentMissing(o) /\ ~Crashed(o)) =>
        /\ ~EndOk(o)
        /\ Unchanged(o)

C04_ShownIsSigner(o) ==
    (IsGa(o) /\ EndOk(o)) => /\ Prompts(o) # <<>>
                             /\ Prompts(o)[Len(Prompts(o))].d.shown = EndD(o).cred

\* nothing about the existence of a credential is disclosed before consent
C04_NoDisclosureBeforeConsent(o) ==
    (Ends(o) # <<>> /\ ~EndOk(o) /\ (ErrIs(o, 25) \/ ErrIs(o, 46)) /\ Lower(o)) => ConsentGiven(o)

\* non-interference: while consent is missing the outcome does not depend on whether a matching credential
\* exists.  Judged on consecutive runs that differ only in the store content.
\* the ceremony of the previous run at the same position as the one just finished
PrevCer(o) == o.prevRun.cers[Len(o.cers)]
HasPrevCer(o) == o.prevRun.valid /\ o.prevRun.cfg = o.cfg0 /\ Len(o.cers) >= 1 /\ Len(o.cers) <= Len(o.prevRun.cers)
SameButStore(o) == HasPrevCer(o) /\ Len(o.cers) = 1 /\ PrevCer(o).b = o.b
C04_NonInterference(o) ==
    (Finished(o) /\ SameButStore(o) /\ ConsentMissing(o) /\ ~Cancelled(o) /\ ~Crashed(o)) =>
        LET pe == SelectSeq(PrevCer(o).evs, LAMBDA e : e.ev = "End")
        IN /\ pe # <<>> /\ Ends(o) # <<>>
           /\ pe[1].d.ok = EndD(o).ok /\ pe[1].d.err = EndD(o).err /\ pe[1].d.werr = EndD(o).werr

\* the U2F API has no prompt of its own: the caller collected the presence flags, and the response (and what is
\* signed) carries exactly those - no control byte adds or removes one
C04_U2fPresenceTruthful(o) ==
    (o.b.api = "u2f" /\ o.b.op = "auth" /\ EndOk(o)) => EndD(o).flags = o.b.req.presence

-----------------------------------------------------------------------------
(* C05 - own RP, allow / exclude lists                                      *)

C05_OwnRpAndAllowList(o) ==
    (IsGa(o) /\ EndOk(o)) =>
        LET c == Get(o.snap0, EndD(o).cred) IN
        /\ Has(o.snap0, EndD(o).cred)
        /\ c.rp = Req(o).rp
        /\ (NonEmptyAllow(o) => EndD(o).cred \in ToSetA(Req(o).allow))

\* absent or empty allow list: the first credential the store lists for the RP (listing = snapshot order
\* for the reference store; the shipped map-like stores have no defined order)
C05_FirstListed(o) ==
    (IsGa(o) /\ EndOk(o) /\ ~NonEmptyAllow(o) /\ o.cfg.storeKind = "reference") =>
        LET mine == SelectSeq(o.snap0, LAMBDA c : c.rp = Req(o).rp)
        IN mine # <<>> /\ EndD(o).cred = mine[1].id

ExcludeHit(o) == NonEmptyExclude(o) /\ \E i \in 1..Len(Req(o).exclude) :
                    Has(o.snap0, Req(o).exclude[i]) /\ Get(o.snap0, Req(o).exclude[i]).rp = Req(o).rp

\* exactly when: judged on fault-free, uncancelled registrations
C05_ExcludedIff(o) ==
    (IsMc(o) /\ Finished(o) /\ NoFaults(o) /\ ~Cancelled(o) /\ ~Crashed(o) /\ Ends(o) # <<>> /\ o.b.api # "u2f") =>
        /\ (EndD(o).err = 25 => ExcludeHit(o) /\ Unchanged(o))
        /\ (EndOk(o) => ~ExcludeHit(o))
        /\ ((ExcludeHit(o) /\ ConsentGiven(o)) => EndD(o).err = 25)

\* the store is asked with the request's RP ID and the request's list
C05_LookupArguments(o) ==
    \A i \in 1..Len(o.evs) :
        (o.evs[i].ev = "Store" /\ o.evs[i].d.call = "find" /\ o.b.api \in {"ctap2", "trait", "client"}) =>
            /\ o.evs[i].d.rp = Req(o).rp
            /\ IF IsMc(o) THEN o.evs[i].d.idsGiven /\ o.evs[i].d.ids = Req(o).exclude
               ELSE IF NonEmptyAllow(o) THEN o.evs[i].d.idsGiven /\ o.evs[i].d.ids = Req(o).allow
               ELSE ~o.evs[i].d.idsGiven

-----------------------------------------------------------------------------
(* C07 - failed or cancelled ceremonies leave the store consistent          *)

\* the store equals snap0 except that `id`'s counter may have advanced by one
UnchangedButCounter(o, id) ==
    /\ Len(o.snap) = Len(o.snap0)
    /\ \A i \in 1..Len(o.snap0) :
          LET a == o.snap0[i]
              b == Get(o.snap, a.id)
          IN \/ b = a
             \/ /\ a.id = id /\ HasCtrA(a.ctr) /\ b = [a EXCEPT !.ctr = CtrIncA(a.ctr)]

\* the store equals snap0 plus exactly one complete new record for this request
PlusOneNew(o) ==
    /\ Len(o.snap) = Len(o.snap0) + 1
    /\ \A i \in 1..Len(o.snap0) : Get(o.snap, o.snap0[i].id) = o.snap0[i]
    /\ \E i \in 1..Len(o.snap) :
          LET c == o.snap[i] IN
          /\ ~Has(o.snap0, c.id)
          /\ c.rp = Req(o).rp
          /\ c.user = (IF Discov(o.cfg, Req(o).rk) THEN Req(o).user ELSE "none")
          /\ c.ctr = (IF o.cfg.counterOn THEN Zero ELSE NoCtrA)

Selected(o) == LET p == Prompts(o) IN IF p = <<>> THEN "none" ELSE p[Len(p)].d.shown

IsRef(o) == o.cfg.storeKind \in {"reference", "memory"}   \* multi-credential stores (the slot store replaces)

C07_RegistrationErrorUnchanged(o) ==
    (IsMc(o) /\ Finished(o) /\ Ends(o) # <<>> /\ ~EndOk(o)) => Unchanged(o)

C07_RegistrationCancelled(o) ==
    (IsMc(o) /\ Finished(o) /\ Cancelled(o) /\ IsRef(o)) => Unchanged(o) \/ PlusOneNew(o)

C07_RegistrationSavedFirst(o) ==
    (IsMc(o) /\ EndOk(o)) => \E i \in 1..Len(o.evs) : o.evs[i].ev = "Store" /\ o.evs[i].d.call = "save" /\ o.evs[i].d.ok

C07_AuthenticationFailedOrCancelled(o) ==
    (IsGa(o) /\ Finished(o) /\ o.b.api # "u2f" /\ (Cancelled(o) \/ (Ends(o) # <<>> /\ ~EndOk(o)))) =>
        UnchangedButCounter(o, Selected(o))

C07_AssertionCounterAccepted(o) ==
    (IsGa(o) /\ EndOk(o) /\ o.b.api # "u2f" /\ HasCtrA(Get(o.snap0, EndD(o).cred).ctr)) =>
        \E i \in 1..Len(o.evs) : /\ o.evs[i].ev = "Store" /\ o.evs[i].d.call = "update" /\ o.evs[i].d.ok
                                 /\ o.evs[i].d.cred.id = EndD(o).cred /\ o.evs[i].d.cred.ctr = EndD(o).ctr

C07_StoreErrorReported(o) ==
    (Ends(o) # <<>> /\ Lower(o)) =>
        \A i \in 1..Len(o.evs) :
            (o.evs[i].ev = "Store" /\ o.evs[i].d.call \in {"save", "update"} /\ ~o.evs[i].d.ok) =>
                ~EndOk(o) /\ ErrIs(o, o.evs[i].d.err)

\* ... also through the U2F API, whatever status the store raised (the U2F error word need not carry it)
C07_U2fStoreErrorReported(o) ==
    (o.b.api = "u2f" /\ Ends(o) # <<>>) =>
        \A i \in 1..Len(o.evs) :
            (o.evs[i].ev = "Store" /\ o.evs[i].d.call \in {"save", "update"} /\ ~o.evs[i].d.ok) => ~EndOk(o)

-----------------------------------------------------------------------------
(* C08 - signature counters                                                 *)

C08_RegistrationReportsZero(o) == (IsMc(o) /\ EndOk(o)) => EndD(o).ctr = Zero

C08_IncrementByOne(o) ==
    (IsGa(o) /\ EndOk(o) /\ Finished(o) /\ o.b.api # "u2f") =>
        LET c0 == Get(o.snap0, EndD(o).cred) IN
        IF HasCtrA(c0.ctr)
        THEN (c0.ctr # CtrMaxA => /\ EndD(o).ctr = CtrIncA(c0.ctr)
                                  /\ Get(o.snap, EndD(o).cred).ctr = EndD(o).ctr)
        ELSE /\ EndD(o).ctr = Zero
             /\ StoreCalls(o, "update") = <<>>
             /\ Get(o.snap, EndD(o).cred) = c0

C08_NoWrapAtMax(o) ==
    (IsGa(o) /\ Finished(o) /\ o.b.api # "u2f") =>
        \A i \in 1..Len(o.snap0) :
            LET a == o.snap0[i]
                b == Get(o.snap, a.id)
            IN (HasCtrA(a.ctr) /\ Has(o.snap, a.id)) =>
                  /\ ~CtrLessA(b.ctr, a.ctr)
                  /\ ((EndOk(o) /\ EndD(o).cred = a.id) => ~CtrLessA(EndD(o).ctr, a.ctr))

NoCrash(o) == ~Crashed(o)

-----------------------------------------------------------------------------
(* C11 - discoverability (authenticator level)                              *)

C11_UserHandleStoredIffDiscoverable(o) ==
    (IsMc(o) /\ EndOk(o) /\ o.b.api # "u2f") =>
        /\ (EndD(o).stored.user # "none") = Discov(o.cfg, Req(o).rk)
        /\ (EndD(o).stored.user # "none" => EndD(o).stored.user = Req(o).user)
        /\ ~(o.cfg.disc = "nondisc" /\ Req(o).rk)

C11_AssertionUserHandle(o) ==
    (IsGa(o) /\ EndOk(o) /\ o.b.api # "u2f") => EndD(o).user = Get(o.snap0, EndD(o).cred).user

-----------------------------------------------------------------------------
(* C02 / C03 - what a relying party can verify (authenticator level)        *)

FirstSupported(algs) == LET I == { i \in 1..Len(algs) : algs[i] \in Supported }
                        IN IF I = {} THEN "none" ELSE algs[CHOOSE i \in I : \A j \in I : i <= j]

C02_Registration(o) ==
    (IsMc(o) /\ EndOk(o) /\ Finished(o) /\ o.b.api # "u2f") =>
        LET d == EndD(o) IN
        /\ d.wf /\ d.at /\ d.rphash = Req(o).rp
        /\ d.attid = d.cred
        /\ d.cose.point /\ d.cose.labels = <<-3, -2, -1, 1, 3>> /\ d.cose.kty = 2 /\ d.cose.crv = 1
        /\ d.cose.alg = -7 /\ FirstSupported(Req(o).algs) = "ES256"
        /\ d.fresh /\ ~Has(o.snap0, d.cred)
        /\ d.idlen = ClampA(o.cfg.idLen, 16, 64)
        /\ d.keymatch
        /\ d.stored.id = d.cred /\ d.stored.rp = Req(o).rp
        /\ (IsRef(o) => PlusOneNew(o))

C02_NoSupportedAlgorithm(o) ==
    (IsMc(o) /\ Finished(o) /\ Ends(o) # <<>> /\ FirstSupported(Req(o).algs) = "none" /\ o.b.api # "u2f") =>
        ~EndOk(o) /\ Unchanged(o)

\* "the algorithm is the first supported entry of the preference list": a list that has one is served.  Judged on
\* CTAP2-level registrations in which nothing else stands in the way (consent given, no exclude hit, no pinAuth, an rk
\* the store can provide, no extension request, no store fault, not cancelled).
C02_SupportedListAccepted(o) ==
    (IsMc(o) /\ o.b.api \in {"ctap2", "trait"} /\ Ends(o) # <<>> /\ FirstSupported(Req(o).algs) = "ES256"
        /\ ConsentGiven(o) /\ NoFaults(o) /\ ~ExcludeHit(o) /\ ~ErrIs(o, 25) /\ ~Req(o).pinAuth      \* (a wrong "excluded" is C05's)
        /\ ~(Req(o).rk /\ o.cfg.disc = "nondisc") /\ ~Req(o).prf.given /\ Req(o).hs = "absent") => EndOk(o)

C03_Assertion(o) ==
    (IsGa(o) /\ EndOk(o) /\ o.b.api # "u2f") =>
        LET d == EndD(o) IN
        /\ d.wf /\ ~d.at /\ d.rphash = Req(o).rp
        /\ d.sigkey = d.cred
        /\ Has(o.snap0, d.cred) /\ Get(o.snap0, d.cred).rp = Req(o).rp
        /\ d.user = Get(o.snap0, d.cred).user

\* "the user handle returned is the one stored with it", for every later authentication too: a successful assertion
\* leaves every stored record as it was - id, RP, user handle, key - except the signature counter of the one it used.
C03_StoredRecordKept(o) ==
    (IsGa(o) /\ EndOk(o) /\ Finished(o) /\ o.b.api # "u2f") => UnchangedButCounter(o, EndD(o).cred)

Eligible(o) == { i \in 1..Len(o.snap0) : /\ o.snap0[i].rp = Req(o).rp
                                        /\ (NonEmptyAllow(o) => o.snap0[i].id \in ToSetA(Req(o).allow)) }

C03_NoEligibleCredential(o) ==
    (IsGa(o) /\ Ends(o) # <<>> /\ ConsentGiven(o) /\ Eligible(o) = {} /\ NoFaults(o) /\ Lower(o)
        /\ (IsClient(o) => o.b.req.dom = "ok" /\ EndD(o).werr \notin {"NotSupportedError", "SyntaxError", "ValidationError"})) =>
        ~EndOk(o) /\ ErrIs(o, 46)

-----------------------------------------------------------------------------
(* C09 - PRF (authenticator level: salts arrive already formed)             *)

PrfOuts(d) == SelectSeq(<<d.prf1, d.prf2>>, LAMBDA p : p.sec # "absent")
LastVerif(o) == Prompts(o) # <<>> /\ Prompts(o)[Len(Prompts(o))].d.verif

ExpectedSaltPrefix(o, cid) ==
    (IF IsClient(o) /\ o.b.req.cprf.kind = "hashed" THEN "raw:" ELSE "") \o
    (IF IsGa(o) /\ Req(o).prf.byCredGiven /\ \E i \in 1..Len(Req(o).prf.byCred) : Req(o).prf.byCred[i].id = cid
     THEN cid \o "." ELSE "e")

C09_Results(o) ==
    (EndOk(o) /\ Lower(o)) =>
        LET d == EndD(o)
            outs == PrfOuts(d)
            cid == d.cred
        IN /\ \A i \in 1..Len(outs) :
                 /\ outs[i].sec \in {"uv", "nouv"}                       \* one of the credential's own secrets
                 /\ (outs[i].sec = "uv" => LastVerif(o))                  \* gated secret only when verified
                 /\ (IsGa(o) /\ LastVerif(o) => outs[i].sec = "uv")        \* always when verified during an assertion
                 /\ (outs[i].sec = "nouv" => d.stored.hm = "both")
           /\ (d.prf1.sec # "absent" => d.prf1.salt = ExpectedSaltPrefix(o, cid) \o "1")
           /\ (d.prf2.sec # "absent" => d.prf2.salt = ExpectedSaltPrefix(o, cid) \o "2" /\ d.prf1.sec # "absent")
           /\ (o.cfg.hmac = "off" => outs = <<>> /\ d.prfEnabled = "absent")
           /\ (IsMc(o) => /\ (d.prfEnabled = "true") = (d.stored.hm # "none" /\ d.prfEnabled # "absent")
                          /\ (o.cfg.hmac = "off" => d.stored.hm = "none")
                          /\ (outs # <<>> => d.prfEnabled = "true"))

\* inputs that apply to the credential used (its own entry, otherwise the default ones) are evaluated: a successful
\* ceremony that had applicable inputs, the capability and a credential with secrets returns a first result
ApplicableInputs(o, cid) ==
    /\ Req(o).prf.given
    /\ \/ Req(o).prf.eval # "absent"
       \/ IsGa(o) /\ Req(o).prf.byCredGiven /\ \E i \in 1..Len(Req(o).prf.byCred) : Req(o).prf.byCred[i].id = cid
C09_ResultsPresent(o) ==
    (EndOk(o) /\ Lower(o) /\ o.cfg.hmac # "off") =>
        LET d == EndD(o) IN
        /\ (IsGa(o) /\ ApplicableInputs(o, d.cred) /\ d.stored.hm # "none") => d.prf1.sec # "absent"
        /\ (IsMc(o) /\ o.cfg.mc /\ ApplicableInputs(o, d.cred) /\ d.prfEnabled = "true") => d.prf1.sec # "absent"

-----------------------------------------------------------------------------
(* client level: C01 end to end, C02/C03 client data, C04/C11 mappings, C09 validation *)

DomainErrors == {"OriginMissingDomain", "OriginRpMissmatch", "UnprotectedOrigin", "InsecureLocalhostNotAllowed", "InvalidRpId"}
Touches(e) == e.ev = "Prompt" \/ (e.ev = "Store" /\ e.d.call \in {"find", "save", "update"})

C01_RejectedNeverReaches(o) ==
    (IsClient(o) /\ Ends(o) # <<>> /\ EndD(o).werr \in DomainErrors) => \A i \in 1..Len(o.evs) : ~Touches(o.evs[i])

C01_EffectiveRpUsed(o) ==
    IsClient(o) =>
        /\ \A i \in 1..Len(o.evs) :
              (o.evs[i].ev = "Store" /\ o.evs[i].d.call \in {"find", "save", "update"}) => o.evs[i].d.rp = o.b.req.rp
        /\ (EndOk(o) => EndD(o).rphash = o.b.req.rp)

C02_ClientData(o) ==
    (IsClient(o) /\ IsMc(o) /\ EndOk(o)) =>
        LET c == EndD(o).client IN
        /\ c.present /\ c.cdType = "webauthn.create" /\ c.chalOk /\ c.originOk /\ ~c.crossOrigin /\ c.orderOk
        /\ c.copiesEqual /\ c.attFmt = "none"
        /\ c.idOk /\ c.rawIdOk /\ c.coseEqDer /\ c.algReported = EndD(o).cose.alg

C03_ClientData(o) ==
    (IsClient(o) /\ IsGa(o) /\ EndOk(o)) =>
        LET c == EndD(o).client IN
        /\ c.present /\ c.cdType = "webauthn.get" /\ c.chalOk /\ c.originOk /\ ~c.crossOrigin /\ c.orderOk
        /\ c.idOk /\ c.copiesEqual

C04_ClientMapping(o) ==
    IsClient(o) => \A i \in 1..Len(o.evs) : o.evs[i].ev = "Prompt" => o.evs[i].d.up /\ o.evs[i].d.uv = ExpUv(o)

C11_RkMapping(o) ==
    (IsClient(o) /\ IsMc(o)) =>
        /\ \A i \in 1..Len(o.evs) : (o.evs[i].ev = "Store" /\ o.evs[i].d.call = "save") => o.evs[i].d.opts.rk = ExpRk(o)
        /\ (EndOk(o) => ~(o.cfg.disc = "nondisc" /\ ExpRk(o)))
        \* after consent the only reason for "unsupported option" is a resident key the store cannot provide
        /\ ((Ends(o) # <<>> /\ ConsentGiven(o) /\ ErrIs(o, 43) /\ NoFaults(o)) => ExpRk(o) /\ o.cfg.disc = "nondisc")

C11_CredProps(o) ==
    (IsClient(o) /\ IsMc(o) /\ EndOk(o)) =>
        EndD(o).client.credProps = (IF o.b.req.credProps = "true"
                                    THEN (IF EndD(o).stored.user # "none" THEN "true" ELSE "false") ELSE "absent")

\* malformed PRF requests as the property lists them
Malformed(o) ==
    LET c == o.b.req.cprf
        badKey == \E i \in 1..Len(c.byCred) : c.byCred[i].id \in {"k:empty", "k:bad64"}
        unlisted == o.b.req.allowGiven /\ \E i \in 1..Len(c.byCred) :
                        \A j \in 1..Len(o.b.req.allow) : o.b.req.allow[j] # c.byCred[i].id
    IN /\ c.kind \in {"prf", "hashed"}
       /\ \/ IsMc(o) /\ c.byCredGiven
          \/ IsGa(o) /\ c.byCredGiven /\ c.byCred # <<>> /\ (~o.b.req.allowGiven \/ o.b.req.allow = <<>>)
          \/ IsGa(o) /\ c.byCredGiven /\ (badKey \/ unlisted)
          \/ c.kind = "hashed" /\ c.badlen /\ (c.eval # "absent" \/ (IsGa(o) /\ c.byCredGiven /\ c.byCred # <<>>))

C09_MalformedRejectedEarly(o) ==
    (IsClient(o) /\ Ends(o) # <<>> /\ o.cfg.hmac # "off" /\ o.b.req.dom = "ok" /\ Malformed(o)) =>
        /\ ~EndOk(o)
        /\ \A i \in 1..Len(o.evs) : ~Touches(o.evs[i])

-----------------------------------------------------------------------------
(* C18 - the sealed CTAP2 API trait equals the direct methods: the run through the trait is adjacent to the
   same run through the direct methods (same configuration, store, requests, environment)                    *)

Terminal(evs) == SelectSeq(evs, LAMBDA e : e.ev \in {"End", "Cancel", "Crash"})
SameRequest(a, b) == a.op = b.op /\ a.req = b.req /\ a.env = b.env
C18_SameAsDirect(o) ==
    (o.b.api = "trait" /\ Finished(o) /\ HasPrevCer(o) /\ PrevCer(o).b.api = "ctap2" /\ SameRequest(PrevCer(o).b, o.b)) =>
        /\ Terminal(o.evs) = Terminal(PrevCer(o).evs)
        /\ SnapSet(o.snap) = SnapSet(PrevCer(o).snap)
        /\ Len(SelectSeq(o.evs, LAMBDA e : e.ev = "Store")) = Len(SelectSeq(PrevCer(o).evs, LAMBDA e : e.ev = "Store"))
        /\ Len(Prompts(o)) = Len(SelectSeq(PrevCer(o).evs, LAMBDA e : e.ev = "Prompt"))

-----------------------------------------------------------------------------
(* C17 - U2F registration / authentication (ceremony part)                   *)
IsU2f(o) == o.b.api = "u2f"
C17_Registration(o) ==
    (IsU2f(o) /\ o.b.op = "reg" /\ EndOk(o) /\ Finished(o)) =>
        LET d == EndD(o) IN
        /\ d.sigkey = Req(o).handle             \* the signature verifies under the returned key over 0x00||app||chal||handle||key
        /\ d.cred = Req(o).handle
        /\ d.keymatch                           \* the stored private key belongs to the returned public key
        /\ Has(o.snap, Req(o).handle) /\ Get(o.snap, Req(o).handle).rp = Req(o).rp
\* a registration succeeds for every key handle of 0..255 bytes (no store fault injected)
C17_RegistrationSucceeds(o) ==
    (IsU2f(o) /\ o.b.op = "reg" /\ Ends(o) # <<>> /\ NoFaults(o)) => EndOk(o)
C17_Authentication(o) ==
    (IsU2f(o) /\ o.b.op = "auth" /\ Ends(o) # <<>>) =>
        LET known == Has(o.snap0, Req(o).handle) /\ Get(o.snap0, Req(o).handle).rp = Req(o).rp IN
        /\ (~known => ~EndOk(o))                 \* an unknown key handle fails
        \* a registered one authenticates, whatever the counter and presence byte (a check-only request - control byte
        \* 0x07 - is left open: the raw-message format lets an authenticator answer it without signing)
        /\ ((known /\ NoFaults(o) /\ Req(o).ctl # "check") => EndOk(o))
        /\ (EndOk(o) => /\ EndD(o).sigkey = Req(o).handle    \* verifies under the key registered for that handle
                         /\ EndD(o).ctr = Req(o).counter /\ EndD(o).flags = Req(o).presence)

-----------------------------------------------------------------------------
(* C06 - private keys and PRF secrets never appear in anything handed back.  The relying-party role searches every
   serialisation (CBOR, JSON, Debug) of every returned value and the Debug rendering of the stored passkeys for the
   secrets read back from the store, in raw / hex / decimal-list / base64 / base64url form; `leaks` lists the hits. *)
C06_NoSecretInOutput(o) == Ends(o) # <<>> => EndD(o).leaks = <<>>
C06_PublicParametersOnly(o) ==
    (EndOk(o) /\ IsMc(o) /\ Lower(o)) => EndD(o).cose.labels = <<-3, -2, -1, 1, 3>>

-----------------------------------------------------------------------------
(* C13 (client part): "no credentials" is reported as credential-not-found during authentication, every other status
   byte raised by the authenticator passes through unchanged                                                          *)
FaultedCalls(o) == SelectSeq(o.evs, LAMBDA e : e.ev = "Store" /\ e.d.faulted /\ e.d.call \in {"find", "save", "update"})
C13_ClientStatusMapping(o) ==
    (IsClient(o) /\ Ends(o) # <<>> /\ ConsentGiven(o) /\ Len(FaultedCalls(o)) = 1
        /\ ~(IsMc(o) /\ FaultedCalls(o)[1].d.call = "find")) =>       \* (an exclude-lookup error is ignored by design)
        LET b == FaultedCalls(o)[1].d.err IN
        /\ ~EndOk(o)
        /\ IF IsGa(o) /\ b = 46 THEN EndD(o).werr = "CredentialNotFound"
           ELSE EndD(o).werr = "AuthenticatorError" /\ EndD(o).err = b

-----------------------------------------------------------------------------
(* C14 (emitted credentials): the JSON of every credential the client returns parses back to an equal value *)
C14_EmittedReparses(o) == (IsClient(o) /\ EndOk(o)) => EndD(o).client.reparse

-----------------------------------------------------------------------------
\* the names of the invariants that are false in o
Violated(o) ==
    IF ~o.b.api \in {"ctap2", "trait", "client", "u2f"} THEN {}
    ELSE
    (IF ~C04_ConsentBeforeSave(o) THEN {"C04.ConsentBeforeSave"} ELSE {})
    \cup (IF ~C04_ConsentBeforeSignature(o) THEN {"C04.ConsentBeforeSignature"} ELSE {})
    \cup (IF ~C04_FlagsTruthful(o) THEN {"C04.FlagsTruthful"} ELSE {})
    \cup (IF ~C04_NoConsentNoEffect(o) THEN {"C04.NoConsentNoEffect"} ELSE {})
    \cup (IF ~C04_ShownIsSigner(o) THEN {"C04.ShownIsSigner"} ELSE {})
    \cup (IF ~C04_NoDisclosureBeforeConsent(o) THEN {"C04.NoDisclosureBeforeConsent"} ELSE {})
    \cup (IF ~C04_NonInterference(o) THEN {"C04.NonInterference"} ELSE {})
    \cup (IF ~C05_OwnRpAndAllowList(o) THEN {"C05.OwnRpAndAllowList"} ELSE {})
    \cup (IF ~C05_FirstListed(o) THEN {"C05.FirstListed"} ELSE {})
    \cup (IF ~C05_ExcludedIff(o) THEN {"C05.ExcludedIff"} ELSE {})
    \cup (IF ~C05_LookupArguments(o) THEN {"C05.LookupArguments"} ELSE {})
    \cup (IF ~C07_RegistrationErrorUnchanged(o) THEN {"C07.RegistrationErrorUnchanged"} ELSE {})
    \cup (IF ~C07_RegistrationCancelled(o) THEN {"C07.RegistrationCancelled"} ELSE {})
    \cup (IF ~C07_RegistrationSavedFirst(o) THEN {"C07.RegistrationSavedFirst"} ELSE {})
    \cup (IF ~C07_AuthenticationFailedOrCancelled(o) THEN {"C07.AuthenticationFailedOrCancelled"} ELSE {})
    \cup (IF ~C07_AssertionCounterAccepted(o) THEN {"C07.AssertionCounterAccepted"} ELSE {})
    \cup (IF ~C07_StoreErrorReported(o) THEN {"C07.StoreErrorReported"} ELSE {})
    \cup (IF ~C08_RegistrationReportsZero(o) THEN {"C08.RegistrationReportsZero"} ELSE {})
    \cup (IF ~C08_IncrementByOne(o) THEN {"C08.IncrementByOne"} ELSE {})
    \cup (IF ~C08_NoWrapAtMax(o) THEN {"C08.NoWrapAtMax"} ELSE {})
    \cup (IF ~NoCrash(o) THEN {"Any.Crash"} ELSE {})
    \cup (IF ~C11_UserHandleStoredIffDiscoverable(o) THEN {"C11.UserHandleStoredIffDiscoverable"} ELSE {})
    \cup (IF ~C11_AssertionUserHandle(o) THEN {"C11.AssertionUserHandle"} ELSE {})
    \cup (IF ~C02_Registration(o) THEN {"C02.Registration"} ELSE {})
    \cup (IF ~C02_NoSupportedAlgorithm(o) THEN {"C02.NoSupportedAlgorithm"} ELSE {})
    \cup (IF ~C02_SupportedListAccepted(o) THEN {"C02.SupportedListAccepted"} ELSE {})
    \cup (IF ~C03_Assertion(o) THEN {"C03.Assertion"} ELSE {})
    \cup (IF ~C03_NoEligibleCredential(o) THEN {"C03.NoEligibleCredential"} ELSE {})
    \cup (IF ~C03_StoredRecordKept(o) THEN {"C03.StoredRecordKept"} ELSE {})
    \cup (IF ~C09_Results(o) THEN {"C09.Results"} ELSE {})
    \cup (IF ~C09_ResultsPresent(o) THEN {"C09.ResultsPresent"} ELSE {})
    \cup (IF ~C06_NoSecretInOutput(o) THEN {"C06.NoSecretInOutput"} ELSE {})
    \cup (IF ~C06_PublicParametersOnly(o) THEN {"C06.PublicParametersOnly"} ELSE {})
    \cup (IF ~C14_EmittedReparses(o) THEN {"C14.EmittedReparses"} ELSE {})
    \cup (IF ~C13_ClientStatusMapping(o) THEN {"C13.ClientStatusMapping"} ELSE {})
    \cup (IF ~C17_Registration(o) THEN {"C17.Registration"} ELSE {})
    \cup (IF ~C17_Authentication(o) THEN {"C17.Authentication"} ELSE {})
    \cup (IF ~C17_RegistrationSucceeds(o) THEN {"C17.RegistrationSucceeds"} ELSE {})
    \cup (IF ~C04_U2fPresenceTruthful(o) THEN {"C04.U2fPresenceTruthful"} ELSE {})
    \cup (IF ~C07_U2fStoreErrorReported(o) THEN {"C07.U2fStoreErrorReported"} ELSE {})
    \cup (IF ~C18_SameAsDirect(o) THEN {"C18.SameAsDirect"} ELSE {})
    \cup (IF ~C01_RejectedNeverReaches(o) THEN {"C01.RejectedNeverReaches"} ELSE {})
    \cup (IF ~C01_EffectiveRpUsed(o) THEN {"C01.EffectiveRpUsed"} ELSE {})
    \cup (IF ~C02_ClientData(o) THEN {"C02.ClientData"} ELSE {})
    \cup (IF ~C03_ClientData(o) THEN {"C03.ClientData"} ELSE {})
    \cup (IF ~C04_ClientMapping(o) THEN {"C04.ClientMapping"} ELSE {})
    \cup (IF ~C11_RkMapping(o) THEN {"C11.RkMapping"} ELSE {})
    \cup (IF ~C11_CredProps(o) THEN {"C11.CredProps"} ELSE {})
    \cup (IF ~C09_MalformedRejectedEarly(o) THEN {"C09.MalformedRejectedEarly"} ELSE {})
=============================================================================
