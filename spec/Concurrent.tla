------------------------------ MODULE Concurrent ------------------------------
(***************************************************************************)
(* C19: several authenticators share one credential store through the      *)
(* provided lock wrappers (Arc<tokio::Mutex<S>>, Arc<tokio::RwLock<S>>).   *)
(*                                                                         *)
(* The wrappers are modelled as coded (credential_store.rs): every store   *)
(* call is  acquire -> inner call -> release ; nothing is held between     *)
(* calls.  find/info take the lock shared under RwLock, save/update        *)
(* exclusively; waiters are served in FIFO order (tokio's locks are fair,  *)
(* a queued writer blocks later readers).  The inner store and the user    *)
(* prompt may suspend, including while the guard is held.                  *)
(*                                                                         *)
(* Each ceremony i runs Ceremony!Step on the SHARED store:                 *)
(*   Ask(i)    its next step is a store call: join the lock queue          *)
(*   Do(i)     granted: the call's effect happens (event at the            *)
(*             linearization point, guard held, suspended afterwards)      *)
(*   Rel(i)    resumed: the guard is dropped                               *)
(*   Local(i)  its next step needs no lock (prompt, result)                *)
(***************************************************************************)
EXTENDS Naturals, Integers, Sequences, FiniteSets, TLC, Json

CONSTANTS Cfgs, Stores, CerSets,      \* CerSets: set of sequences of ceremony descriptors run concurrently
          Lock,                      \* "mutex" | "rwlock"
          PlanOk(_),                 \* which (cfg, store, ceremonies) combinations are explored
          Known, Export

C == INSTANCE Ceremony
CP == INSTANCE ConcProps

VARIABLES plan, store, nnew, cers, queue, holders, obs, order
vars == <<plan, store, nnew, cers, queue, holders, obs, order>>

N == Len(plan.cers)
Procs == 1..N

Init ==
    /\ plan \in [cfg : Cfgs, store : Stores, cers : CerSets]
    /\ PlanOk(plan)
    /\ store = plan.store
    /\ nnew = 0
    /\ cers = [i \in 1..Len(plan.cers) |-> C!NewCer("ctap2", plan.cers[i].op, plan.cers[i].req, plan.cers[i].env)]
    /\ queue = <<>>
    /\ holders = {}
    /\ obs = CP!Begin(plan.cfg, plan.store, plan.cers)
    /\ order = <<>>

NextOf(i) == C!Step(plan.cfg, cers[i], store, nnew)
IsStoreStep(i) == NextOf(i).ev.ev = "Store"
IsRead(i) == NextOf(i).ev.d.call \in {"find", "info"}
Queued(i) == \E k \in 1..Len(queue) : queue[k] = i

Holds(i) == \E h \in holders : h.p = i

Ask(i) ==
    /\ ~cers[i].done /\ ~Holds(i) /\ ~Queued(i) /\ IsStoreStep(i)
    /\ queue' = Append(queue, i)
    /\ UNCHANGED <<plan, store, nnew, cers, holders, obs, order>>

\* may the head of the queue take the lock now?
Grantable(i) ==
    /\ queue # <<>> /\ queue[1] = i
    /\ IF Lock = "rwlock" /\ IsRead(i)
       THEN \A h \in holders : h.mode = "r"
       ELSE holders = {}

Do(i) ==
    /\ Grantable(i)
    /\ LET r == NextOf(i) IN
       /\ store' = r.store
       /\ nnew' = r.nnew
       /\ cers' = [cers EXCEPT ![i] = r.cer]
       /\ obs' = CP!Observe(obs, i, r.ev)
    /\ queue' = Tail(queue)
    /\ holders' = holders \cup {[p |-> i, mode |-> IF Lock = "rwlock" /\ IsRead(i) THEN "r" ELSE "w"]}
    /\ order' = Append(order, i)
    /\ UNCHANGED plan

Rel(i) ==
    /\ Holds(i)
    /\ holders' = { h \in holders : h.p # i }
    /\ UNCHANGED <<plan, store, nnew, cers, queue, obs, order>>

Local(i) ==
    /\ ~cers[i].done /\ ~Holds(i) /\ ~Queued(i) /\ ~IsStoreStep(i)
    /\ LET r == NextOf(i) IN
       /\ store' = r.store
       /\ nnew' = r.nnew
       /\ cers' = [cers EXCEPT ![i] = r.cer]
       /\ obs' = CP!Observe(obs, i, r.ev)
    /\ order' = Append(order, i)
    /\ UNCHANGED <<plan, queue, holders>>

AllDone == \A i \in Procs : cers[i].done /\ ~Holds(i)

Finish ==
    /\ AllDone /\ ~obs.final
    /\ obs' = CP!Final(obs, store)
    /\ UNCHANGED <<plan, store, nnew, cers, queue, holders, order>>

AskAny == \E i \in Procs : Ask(i)
DoAny == \E i \in Procs : Do(i)
RelAny == \E i \in Procs : Rel(i)
LocalAny == \E i \in Procs : Local(i)
Next == AskAny \/ DoAny \/ RelAny \/ LocalAny \/ Finish
Spec == Init /\ [][Next]_vars

\* no deadlock: while a ceremony is unfinished, some step is possible
NoDeadlock == (~AllDone) => ENABLED Next

\* the same as a liveness property: under weak fairness of the scheduler (a step that stays possible is taken) every
\* schedule ends with all ceremonies finished - neither a deadlock nor a cycle of steps that never finishes.
\* Checked without state constraint and without VIEW (ConcMC_live_*.cfg).
FairSpec == Spec /\ WF_vars(Next)
Termination == <>(obs.final)

PropertiesHold == \/ CP!Violated(obs) \subseteq Known
                  \/ PrintT(<<"VIOLATED", CP!Violated(obs) \ Known>>) /\ FALSE

ExportInv == (Export /\ obs.final) => PrintT(<<"REPLAY", ToJson([cfg |-> plan.cfg, store |-> plan.store,
                                                                cers |-> plan.cers, order |-> order, lock |-> Lock])>>)

view == <<plan, store, nnew, cers, queue, holders, obs>>
=============================================================================
