------------------------------ MODULE ConcTrace ------------------------------
(***************************************************************************)
(* Trace validation for C19: events of concurrently polled ceremonies on a *)
(* shared store (recorded by `pkverif conc replay`), each tagged with its  *)
(* ceremony.  Layer B: every Store/Prompt/End event of ceremony i must be  *)
(* the next step Ceremony!Step predicts for i on the shared store as it is *)
(* at that moment (any interleaving at event granularity is a behaviour of *)
(* Concurrent.tla).  Layer A: ConcProps!Violated on the folded events.     *)
(***************************************************************************)
EXTENDS Naturals, Integers, Sequences, FiniteSets, TLC, Json, IOUtils

Rec == ndJsonDeserialize(IOEnv.TRACE)
C == INSTANCE Ceremony
CP == INSTANCE ConcProps

VARIABLES l, st, obs, viol, drift
vars == <<l, st, obs, viol, drift>>

MaxProcs == 4
Idle == [api |-> "none", done |-> TRUE]
NoSt == [cfg |-> [storeKind |-> "none"], store |-> <<>>, nnew |-> 0, cers |-> [i \in 1..MaxProcs |-> Idle], lost |-> TRUE, run |-> -1]
NoObs == [cfg |-> [storeKind |-> "none"], snap0 |-> <<>>, cers |-> <<>>, all |-> <<>>, final |-> FALSE, snapF |-> <<>>]

Init == l = 1 /\ st = NoSt /\ obs = NoObs /\ viol = {} /\ drift = {}

ToSet(s) == { s[i] : i \in 1..Len(s) }
SameSnap(kind, a, b) == IF kind = "reference" THEN a = b ELSE ToSet(a) = ToSet(b) /\ Len(a) = Len(b)

Explains(kind, p, e) ==
    /\ p.ev = e.ev
    /\ CASE e.ev = "Prompt" -> p.d = e.d
         [] e.ev = "Store"  -> /\ p.d.call = e.d.call /\ p.d.idsGiven = e.d.idsGiven /\ p.d.ids = e.d.ids
                               /\ p.d.rp = e.d.rp /\ p.d.cred = e.d.cred /\ p.d.ok = e.d.ok /\ p.d.err = e.d.err
                               /\ p.d.found = e.d.found /\ p.d.opts = e.d.opts
                               /\ SameSnap(kind, p.d.snap, e.d.snap)
         [] e.ev = "End"    -> /\ p.d.ok = e.d.ok /\ p.d.err = e.d.err
                               /\ (p.d.ok => /\ p.d.flags = e.d.flags /\ p.d.ctr = e.d.ctr /\ p.d.cred = e.d.cred
                                             /\ p.d.user = e.d.user /\ p.d.rphash = e.d.rphash /\ p.d.sigkey = e.d.sigkey)
         [] OTHER -> FALSE

NewViol(o) == { [run |-> st.run, inv |-> n, l |-> l] : n \in { m \in CP!Violated(o) : ~\E v \in viol : v.run = st.run /\ v.inv = m } }

Next ==
    /\ l <= Len(Rec)
    /\ l' = l + 1
    /\ LET e == Rec[l] IN
       CASE e.ev = "Reset" ->
              /\ st' = [cfg |-> e.cfg, store |-> e.store, nnew |-> 0, cers |-> [i \in 1..MaxProcs |-> Idle], lost |-> FALSE, run |-> e.run]
              /\ obs' = CP!Begin(e.cfg, e.store, <<>>)
              /\ UNCHANGED <<viol, drift>>
         [] e.ev = "Begin" ->
              /\ st' = [st EXCEPT !.cers[e.cer] = C!NewCer("ctap2", e.d.op, e.d.req, e.d.env)]
              /\ obs' = [obs EXCEPT !.cers = Append(obs.cers, [op |-> e.d.op, req |-> e.d.req, env |-> e.d.env])]
              /\ UNCHANGED <<viol, drift>>
         [] e.ev = "Final" ->
              LET o == CP!Final(obs, e.d.snap) IN
              /\ obs' = o
              /\ viol' = viol \cup NewViol(o)
              /\ drift' = IF st.lost \/ SameSnap(st.cfg.storeKind, st.store, e.d.snap) THEN drift
                          ELSE drift \cup {[run |-> st.run, l |-> l, what |-> "Final"]}
              /\ UNCHANGED st
         [] e.ev \in {"Deadlock", "Crash"} ->
              LET o == CP!Observe(obs, e.cer, e) IN
              /\ obs' = o
              /\ viol' = viol \cup NewViol(o)
              /\ st' = [st EXCEPT !.lost = TRUE]
              /\ UNCHANGED drift
         [] OTHER ->
              LET o == CP!Observe(obs, e.cer, e) IN
              /\ obs' = o
              /\ viol' = viol \cup NewViol(o)
              /\ IF st.lost \/ st.cers[e.cer].done
                 THEN /\ st' = [st EXCEPT !.lost = TRUE]
                      /\ drift' = IF st.lost THEN drift ELSE drift \cup {[run |-> st.run, l |-> l, what |-> e.ev]}
                 ELSE LET r == C!Step(st.cfg, st.cers[e.cer], st.store, st.nnew) IN
                      IF Explains(st.cfg.storeKind, r.ev, e)
                      THEN /\ st' = [st EXCEPT !.cers[e.cer] = r.cer, !.store = r.store, !.nnew = r.nnew]
                           /\ UNCHANGED drift
                      ELSE /\ st' = [st EXCEPT !.lost = TRUE]
                           /\ drift' = drift \cup {[run |-> st.run, l |-> l, what |-> e.ev]}

Spec == Init /\ [][Next]_vars
Report == (l = Len(Rec) + 1) => PrintT(<<"RESULT", ToJson([events |-> Len(Rec), viol |-> viol, drift |-> drift])>>)
Consumed == TLCGet("stats").diameter = Len(Rec) + 1 \/ PrintT(<<"UNCONSUMED", TLCGet("stats").diameter, Len(Rec)>>)
=============================================================================
