CONSTANTS
  Cfgs <- C07_Cfgs
  StoreLists <- C07_Stores
  CerLists <- C07_Cers
  Known = {}
  Export = FALSE
SPECIFICATION FairSpec
INVARIANT PropertiesHold
PROPERTY Termination
CHECK_DEADLOCK FALSE
