---------------------------- MODULE StoreContract ----------------------------
(***************************************************************************)
(* C05 (c): the documented lookup contract of CredentialStore               *)
(* ("find all credentials matching the given ids and rp_id") as a TLA+     *)
(* definition, the case space TLC enumerates for the shipped stores, and   *)
(* the batch judgement of what their find_credentials returned.            *)
(*                                                                         *)
(* mode = "cases": print the cases;  mode = "judge": judge IOEnv.TRACE     *)
(***************************************************************************)
EXTENDS Naturals, Integers, Sequences, FiniteSets, TLC, Json, IOUtils

NoCtr == [hi |-> -1, lo |-> 0]
Cred(id, rp, user) == [id |-> id, rp |-> rp, user |-> user, ctr |-> NoCtr, hm |-> "none"]
RpChoice == {"r1", "r2", "absent"}
\* RP IDs that are different strings from r1 but near it (letter case, sub-domain, trailing dot, character suffix):
\* the contract compares RP IDs exactly
Near == {"r1case", "r1sub", "r1dot", "r1sfx"}
Contents ==
    \* (c2 has no user handle: a non-discoverable or U2F credential is listed for its RP like any other)
    { SelectSeq(<<Cred("c1", a, "u1"), Cred("c2", b, "none"), Cred("c3", c, "u2")>>, LAMBDA x : x.rp # "absent") :
        a \in RpChoice, b \in RpChoice, c \in RpChoice \cup Near }
Lists == { <<>>, <<"c1">>, <<"c2">>, <<"c3">>, <<"x1">>, <<"c1", "c2">>, <<"c2", "c1">>, <<"c1", "c3">>,
           <<"c3", "x1">>, <<"x1", "c2">>, <<"c1", "c2", "c3">>,
           \* ids that are near a held id without being it: a prefix, an extension, one bit off, the empty id
           <<"c1:pre">>, <<"c1:ext">>, <<"c1:flip">>, <<"id:empty">>, <<"c2:pre", "c3:ext">>, <<"id:empty", "c1">> }
Cases == [content : Contents, ids : Lists, given : BOOLEAN, rp : {"r1", "r2"} \cup Near]

ToSet(s) == { s[i] : i \in 1..Len(s) }

\* the contract: credentials of the store bound to rp and, when a list is given, named in it
Expected(e) == { c.id : c \in { x \in ToSet(e.content) : x.rp = e.rp /\ (e.given => x.id \in ToSet(e.ids)) } }

\* single-slot stores hold at most their first credential
Held(e) == IF e.slot THEN (IF e.content = <<>> THEN <<>> ELSE <<e.content[1]>>) ELSE e.content
ExpectedOf(e) == Expected([e EXCEPT !.content = Held(e)])

Conforms(e) ==
    /\ ~e.crash
    /\ ToSet(e.found) = ExpectedOf(e)
    /\ Len(e.found) = Cardinality(ToSet(e.found))           \* no duplicates
    /\ (e.ok \/ e.err = 46)                                  \* an empty result may be NoCredentials, nothing else

Rec == IF "TRACE" \in DOMAIN IOEnv THEN ndJsonDeserialize(IOEnv.TRACE) ELSE <<>>

VARIABLE done
Init == done = FALSE
Next == /\ ~done
        /\ IF "TRACE" \in DOMAIN IOEnv
           THEN PrintT(<<"RESULT", ToJson([events |-> Len(Rec), viol |-> { i \in 1..Len(Rec) : ~Conforms(Rec[i]) }])>>)
           ELSE PrintT(<<"CASES", ToJson(Cases)>>)
        /\ done' = TRUE
Spec == Init /\ [][Next]_done
=============================================================================
