CONSTANTS
  Cfgs <- C19_Cfgs
  Stores <- C19_HighStores
  CerSets <- C19_HighPairs
  PlanOk <- C19_PlanOk
  Lock = "mutex"
  Known = {"C19.DistinctCounters.StaleUpdate", "C19.LargestIsStored.StaleUpdate"}
  Export = TRUE
SPECIFICATION Spec
INVARIANT PropertiesHold
INVARIANT NoDeadlock
INVARIANT ExportInv
CHECK_DEADLOCK FALSE
