------------------------------- MODULE AuthData -------------------------------
(***************************************************************************)
(* C12: the authenticator-data layout                                      *)
(*   rpIdHash(32) || flags(1) || counter(4, big endian)                    *)
(*   || [ aaguid(16) || L(2) || credential id (L) || COSE key ]   iff AT   *)
(*   || [ CBOR extension map ]                                    iff ED   *)
(* as a case space for encoding (constructor + setters) and decoding       *)
(* (truncations, flag bytes) and the judgement of what `pkverif authdata`  *)
(* observed with its own decoder and from from_slice / to_vec.             *)
(***************************************************************************)
EXTENDS Naturals, Integers, Sequences, FiniteSets, TLC, Json, IOUtils

FlagSets == SUBSET {"UP", "UV"}
Counters == {"none", "zero", "one", "max"}
IdLens == {0, 1, 16, 64, 255, 256, 1023, 65535}
Exts == {"none", "mc-bool", "ga-bytes", "mc-mconly", "mc-mcboth", "mc-false"}
\* the extension setters called twice: the second call may replace, clear or leave the section - whichever it does,
\* the ED bit must describe what is encoded
SeqExts == {"mc-then-none", "ga-then-empty", "mc-then-ga", "none-then-mc"}
EncCases ==
    { [rp |-> "ascii", ctr |-> c, flags |-> f, at |-> a, idlen |-> IF a THEN 16 ELSE 0, ext |-> e, key |-> "plain"] :
        c \in {"none", "one"}, f \in FlagSets, a \in BOOLEAN, e \in SeqExts } \cup
    \* EC2 keys that carry optional common parameters (key id, key operations, base IV), and EC2 keys on the other curves
    { [rp |-> "ascii", ctr |-> "one", flags |-> f, at |-> TRUE, idlen |-> n, ext |-> e, key |-> k] :
        f \in FlagSets, n \in {0, 16, 255}, e \in Exts, k \in {"kid", "ops", "iv", "p384", "p521", "k256"} } \cup
    { [rp |-> r, ctr |-> c, flags |-> f, at |-> FALSE, idlen |-> 0, ext |-> e, key |-> "plain"] :
        \* the RP ID is hashed exactly as given: mixed case, raw Unicode, empty, trailing dot and long ids included
        r \in {"ascii", "idn", "upper", "unicode", "empty", "dot", "long"}, c \in Counters, f \in FlagSets, e \in Exts } \cup
    { [rp |-> "ascii", ctr |-> c, flags |-> f, at |-> TRUE, idlen |-> n, ext |-> e, key |-> "plain"] :
        c \in Counters, f \in FlagSets, n \in IdLens, e \in Exts }

Bit(name) == CASE name = "UP" -> 1 [] name = "UV" -> 4 [] name = "BE" -> 8 [] name = "BS" -> 16 [] name = "AT" -> 64 [] name = "ED" -> 128
RECURSIVE Sum(_)
Sum(S) == IF S = {} THEN 0 ELSE LET x == CHOOSE x \in S : TRUE IN Bit(x) + Sum(S \ {x})
ToSet(s) == { s[i] : i \in 1..Len(s) }

\* the flag byte a value built with new() + set_flags(f) [+ sections] must carry: BE and BS are set by the constructor
ExpectedFlags(c, ed) == Sum(ToSet(c.flags) \cup {"BE", "BS"} \cup (IF c.at THEN {"AT"} ELSE {}) \cup (IF ed THEN {"ED"} ELSE {}))

JudgeEnc(e) ==
    /\ ~e.crash /\ e.wf                                   \* every byte accounted for by the layout
    /\ e.hashok /\ e.flagbyte = ExpectedFlags(e.case, e.edpresent)     \* the ED bit iff an extension section is encoded
    /\ e.ctrok                                            \* big-endian counter, absent counter = 0
    /\ e.atpresent = e.case.at
    /\ (e.case.ext \notin SeqExts => e.edpresent = (e.case.ext # "none"))
    /\ (e.case.ext = "none-then-mc" => e.edpresent)
    /\ (e.case.at => e.aaguidok /\ e.idlen = e.case.idlen /\ e.idok /\ e.keyok)
    /\ (e.edpresent => e.extok)
    /\ e.total = 37 + (IF e.case.at THEN 18 + e.case.idlen + e.keylen ELSE 0) + e.extlen
    /\ e.rt = "equal"                                     \* from_slice(to_vec(v)) = v (absent counter reads back as zero)

\* every strict prefix of a valid encoding is rejected; the full encoding is accepted
JudgeTrunc(e) == ~e.crash /\ (IF e.cut < e.total THEN e.res = "err" ELSE e.res = "ok")

\* 37-byte inputs (no sections) with every flag byte: accepted iff no reserved bit and no section flag
Reserved(b) == (b \div 2) % 2 = 1 \/ (b \div 32) % 2 = 1
SectionFlag(b) == (b \div 64) % 2 = 1 \/ (b \div 128) % 2 = 1
JudgeFlags(e) == ~e.crash /\ (e.res = "ok") = (~Reserved(e.byte) /\ ~SectionFlag(e.byte))

JudgeNew(e) == ~e.crash /\ (e.res = "ok") = (e.idlen <= 65535)
JudgeCorrupt(e) == ~e.crash

Judge(e) ==
    CASE e.kind = "enc" -> JudgeEnc(e)
      [] e.kind = "trunc" -> JudgeTrunc(e)
      [] e.kind = "flags" -> JudgeFlags(e)
      [] e.kind = "new" -> JudgeNew(e)
      [] e.kind = "corrupt" -> JudgeCorrupt(e)

Rec == IF "TRACE" \in DOMAIN IOEnv THEN ndJsonDeserialize(IOEnv.TRACE) ELSE <<>>
VARIABLE done
Init == done = FALSE
Next == /\ ~done
        /\ IF "TRACE" \in DOMAIN IOEnv
           THEN PrintT(<<"RESULT", ToJson([events |-> Len(Rec), viol |-> { i \in 1..Len(Rec) : ~Judge(Rec[i]) }])>>)
           ELSE PrintT(<<"CASES", ToJson(EncCases)>>)
        /\ done' = TRUE
Spec == Init /\ [][Next]_done
=============================================================================
