--------------------------------- MODULE U2f ---------------------------------
(***************************************************************************)
(* C17 (encodings): the U2F raw message formats as layouts, the space of   *)
(* well-formed extended-length request frames, and the batch judgement of  *)
(* what `pkverif u2f` observed from RegisterResponse::encode,              *)
(* AuthenticationResponse::encode, Version::encode and Request::try_from.  *)
(* Without TRACE in the environment the module prints the frame cases.     *)
(***************************************************************************)
EXTENDS Naturals, Integers, Sequences, FiniteSets, TLC, Json, IOUtils

SwNoError == 36864       \* 0x9000

\* registration response: 0x05 || 0x04 x y || L || key handle (L) || certificate || signature || 0x9000
RegisterLayout(e) ==
    /\ e.total = 1 + 65 + 1 + e.hl + e.cl + e.sl + 2
    /\ e.reserved = 5 /\ e.pk0 = 4 /\ e.xeq /\ e.yeq
    /\ e.hlenbyte = e.hl /\ e.heq /\ e.ceq /\ e.seq
    /\ e.sw = SwNoError

\* authentication response: presence byte || counter (4, big endian) || signature || 0x9000
AuthLayout(e) ==
    /\ e.total = 1 + 4 + e.sl + 2
    /\ e.presenceeq /\ e.ctrbe /\ e.seq /\ e.sw = SwNoError

VersionLayout(e) == e.total = 8 /\ e.texteq /\ e.sw = SwNoError

\* well-formed extended-length request frames:
\*   CLA INS P1 P2 | 00 LcHi LcLo | data | [LeHi LeLo]          (register, authenticate)
\*   CLA INS P1 P2 | 00 00 00                                   (version: no data, Le = 0)
Frames ==
    { [ins |-> 1, p1 |-> p, hl |-> 0, le |-> l] : p \in {0, 3}, l \in {"none", "zero", "max"} }
    \cup { [ins |-> 2, p1 |-> p, hl |-> h, le |-> l] : p \in {3, 7, 8}, h \in {0, 1, 16, 32, 64, 255}, l \in {"none", "zero", "max"} }
    \cup { [ins |-> 3, p1 |-> 0, hl |-> 0, le |-> "zero"] }

FrameParsed(e) ==
    /\ e.res = "ok"
    /\ e.insok /\ e.p1ok /\ e.lenok /\ e.chalok /\ e.appok /\ e.handleok /\ e.paramok

Judge(e) ==
    CASE e.kind = "regresp"  -> RegisterLayout(e)
      [] e.kind = "authresp" -> AuthLayout(e)
      [] e.kind = "version"  -> VersionLayout(e)
      [] e.kind = "frame"    -> FrameParsed(e)

Rec == IF "TRACE" \in DOMAIN IOEnv THEN ndJsonDeserialize(IOEnv.TRACE) ELSE <<>>

VARIABLE done
Init == done = FALSE
Next == /\ ~done
        /\ IF "TRACE" \in DOMAIN IOEnv
           THEN PrintT(<<"RESULT", ToJson([events |-> Len(Rec), viol |-> { i \in 1..Len(Rec) : ~Judge(Rec[i]) }])>>)
           ELSE PrintT(<<"CASES", ToJson(Frames)>>)
        /\ done' = TRUE
Spec == Init /\ [][Next]_done
=============================================================================
