CONSTANTS
  MaxCers = 25
  Export = TRUE
SPECIFICATION Spec
INVARIANT PropertiesHold
INVARIANT ExportInv
CHECK_DEADLOCK FALSE
