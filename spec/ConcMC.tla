-------------------------------- MODULE ConcMC --------------------------------
(* Configurations for Concurrent.tla: which ceremonies run concurrently over which shared store. *)
EXTENDS Concurrent

Ctr(h, l) == [hi |-> h, lo |-> l]
NoCtr == [hi |-> -1, lo |-> 0]
Cred(id, rp, user, ctr, hm) == [id |-> id, rp |-> rp, user |-> user, ctr |-> ctr, hm |-> hm]
BaseCfg == [uvCap |-> "configured", upCap |-> TRUE, counterOn |-> TRUE, idLen |-> 16, hmac |-> "off", mc |-> FALSE,
            storeKind |-> "reference", disc |-> "full", emptyAsErr |-> FALSE,
            wrap |-> "none", tr |-> "default",
            order |-> "oldest"]  \* the reference store lists a relying party's credentials oldest first / newest first     \* which shipped lock wrapper stands in front of the reference store (transparent in the model)
NoPrfReq == [given |-> FALSE, eval |-> "absent", byCred |-> <<>>, byCredGiven |-> FALSE]
BaseReq == [rp |-> "r1", user |-> "u1", algs |-> <<"ES256">>, exclude |-> <<>>, excludeGiven |-> FALSE,
            allow |-> <<>>, allowGiven |-> FALSE, rk |-> FALSE, up |-> TRUE, uv |-> FALSE, pinAuth |-> FALSE,
            hs |-> "absent", prf |-> NoPrfReq, cdh |-> "h1", unkType |-> FALSE]
UvOk(p, v) == [kind |-> "ok", pres |-> p, verif |-> v, err |-> 0]
BaseEnv == [uv |-> UvOk(TRUE, TRUE), faults |-> <<0, 0, 0>>, cancelAt |-> -1]
Cer(op, req) == [api |-> "ctap2", op |-> op, req |-> req, env |-> BaseEnv]

AssertOn(id) == Cer("ga", [BaseReq EXCEPT !.allow = <<id>>, !.allowGiven = TRUE])
AssertAny == Cer("ga", BaseReq)
Register(u, rk) == Cer("mc", [BaseReq EXCEPT !.user = u, !.rk = rk])

C19_Cfgs == { BaseCfg, [BaseCfg EXCEPT !.storeKind = "memory", !.disc = "forced"] }
\* with the PRF capability on: an assertion that asks for a PRF evaluation on a credential without secrets fails AFTER
\* its counter update was accepted
C19_PrfCfgs == { [BaseCfg EXCEPT !.hmac = "withoutuv"] }
PrfOne == [given |-> TRUE, eval |-> "one", byCred |-> <<>>, byCredGiven |-> FALSE]
AssertPrfOn(id) == Cer("ga", [BaseReq EXCEPT !.allow = <<id>>, !.allowGiven = TRUE, !.prf = PrfOne])
\* a ceremony whose k-th fallible store call fails with a status byte
Failing(c, faults) == [c EXCEPT !.env = [c.env EXCEPT !.faults = faults]]
C19_FailPairs == { <<AssertPrfOn("c1"), AssertOn("c1")>>, <<AssertPrfOn("c1"), AssertPrfOn("c1")>>,
                   <<Failing(AssertOn("c1"), <<0, 40, 0>>), AssertOn("c1")>>, <<Failing(AssertOn("c1"), <<40, 0, 0>>), AssertOn("c1")>>,
                   <<Failing(Register("u3", TRUE), <<40, 0, 0>>), Register("u4", TRUE)>>,
                   <<Failing(Register("u3", TRUE), <<40, 0, 0>>), AssertOn("c1")>> }
\* counters next to the 32-bit maximum: one more assertion fits, the next one must not reuse the value
C19_HighStores == { <<Cred("c1", "r1", "u1", Ctr(65535, 65534), "none"), Cred("c2", "r1", "u2", NoCtr, "none")>> }
C19_HighPairs == { <<AssertOn("c1"), AssertOn("c1")>>, <<AssertOn("c1"), AssertOn("c2")>> }
C19_HighTriples == { <<AssertOn("c1"), AssertOn("c1"), AssertOn("c1")>> }
C19_Stores == { <<Cred("c1", "r1", "u1", Ctr(0, 5), "none"), Cred("c2", "r1", "u2", NoCtr, "none")>> }
\* two concurrent ceremonies: assert/assert on one credential, assert/register, register/register
C19_Pairs == { <<AssertOn("c1"), AssertOn("c1")>>, <<AssertOn("c1"), AssertOn("c2")>>, <<AssertOn("c1"), Register("u3", TRUE)>>,
               <<Register("u3", TRUE), Register("u4", FALSE)>>, <<AssertOn("c2"), Register("u3", FALSE)>>,
               \* lookups without an allow list (the wrapper's id-less path), against a writer and against each other
               <<AssertAny, Register("u3", TRUE)>>, <<AssertAny, AssertOn("c1")>>, <<AssertAny, AssertAny>>,
               \* two registrations for the same account, and one for the account an existing credential belongs to
               <<Register("u3", TRUE), Register("u3", TRUE)>>, <<Register("u1", TRUE), AssertOn("c2")>> }
\* C05 under concurrency: the exclude lookup / the allow-list lookup while another ceremony holds or wants the lock
RegisterExcluding(u, x) == Cer("mc", [BaseReq EXCEPT !.user = u, !.rk = TRUE, !.exclude = x, !.excludeGiven = TRUE])
C05_ConcPairs == { <<RegisterExcluding("u3", <<"c1">>), AssertOn("c1")>>, <<RegisterExcluding("u3", <<"c2">>), Register("u4", TRUE)>>,
                   <<RegisterExcluding("u3", <<"x1", "c1">>), RegisterExcluding("u4", <<"c2">>)>>,
                   <<RegisterExcluding("u3", <<"x1">>), AssertOn("c2")>> }
\* the map-like MemoryStore has no listing order: an id-less lookup is predictable only on the reference store
IdLess(c) == c.op = "ga" /\ ~c.req.allowGiven
C19_PlanOk(p) == p.cfg.storeKind = "memory" => \A i \in 1..Len(p.cers) : ~IdLess(p.cers[i])
C19_Triples == { <<AssertOn("c1"), AssertOn("c1"), AssertOn("c1")>>, <<AssertOn("c1"), AssertOn("c1"), Register("u3", TRUE)>>,
                 <<AssertOn("c1"), Register("u3", TRUE), Register("u4", TRUE)>>,
                 <<AssertAny, Register("u3", TRUE), AssertOn("c2")>>, <<Register("u3", TRUE), Register("u3", TRUE), AssertAny>> }
\* a store that reports a transient CTAP1 condition (channel busy, timeout) at a lookup while a writer is about
C19_BusyPairs == { <<Failing(AssertOn("c1"), <<6, 0, 0>>), Register("u3", TRUE)>>, <<Failing(AssertAny, <<6, 0, 0>>), AssertOn("c1")>>,
                   <<Failing(AssertOn("c2"), <<5, 0, 0>>), AssertOn("c1")>>,
                   <<Failing(RegisterExcluding("u3", <<"c1">>), <<6, 0, 0>>), AssertOn("c1")>> }
\* C04 under concurrency: the store changes while a consent prompt is pending (a registration for the same RP on a
\* store that lists newest first; an assertion by another ceremony)
C04_ConcCfgs == { [BaseCfg EXCEPT !.order = o] : o \in {"oldest", "newest"} }
C04_ConcPairs == { <<AssertAny, Register("u3", TRUE)>>, <<AssertAny, Register("u3", FALSE)>>, <<AssertOn("c2"), Register("u2", TRUE)>>,
                   <<AssertAny, AssertOn("c2")>> }
C19_FailPairsAll == C19_FailPairs \cup C19_BusyPairs
=============================================================================
