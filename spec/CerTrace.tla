------------------------------ MODULE CerTrace ------------------------------
(***************************************************************************)
(* Trace validation for ceremonies: events recorded by `pkverif cer ...`   *)
(* from the real Authenticator / Client are consumed one per TLC state.    *)
(*   st    layer B: configuration, store and ceremony record predicted by  *)
(*         Ceremony!Step (one step per recorded Prompt/Store/End event)    *)
(*   obs   layer A: CerProps!Observe folded over the recorded events       *)
(*   viol  layer-A invariants found false: [run, ci, inv, l]               *)
(*   drift recorded events layer B could not explain (not an alarm)        *)
(* Runs are concatenated; each starts with a Reset event.                  *)
(***************************************************************************)
EXTENDS Naturals, Integers, Sequences, FiniteSets, TLC, Json, IOUtils

Rec == ndJsonDeserialize(IOEnv.TRACE)

C == INSTANCE Ceremony
CL == INSTANCE ClientCer
P == INSTANCE CerProps

VARIABLES l, st, obs, viol, drift, ci
vars == <<l, st, obs, viol, drift, ci>>

Idle == [api |-> "none", done |-> TRUE]
NoSt == [cfg |-> [storeKind |-> "none"], store |-> <<>>, nnew |-> 0, cer |-> Idle, lost |-> TRUE]

Init == /\ l = 1
        /\ st = NoSt
        /\ obs = P!NoObs
        /\ viol = {}
        /\ drift = {}
        /\ ci = 0

ToSet(s) == { s[i] : i \in 1..Len(s) }

SameSnap(kind, a, b) == IF kind = "reference" THEN a = b ELSE ToSet(a) = ToSet(b) /\ Len(a) = Len(b)

\* does the predicted event explain the recorded one?
Explains(kind, p, e) ==
    /\ p.ev = e.ev
    /\ CASE e.ev = "Prompt" -> p.d = e.d
         [] e.ev = "Store"  -> /\ p.d.call = e.d.call /\ p.d.idsGiven = e.d.idsGiven /\ p.d.ids = e.d.ids
                               /\ p.d.rp = e.d.rp /\ p.d.cred = e.d.cred /\ p.d.ok = e.d.ok /\ p.d.err = e.d.err
                               /\ p.d.found = e.d.found /\ p.d.faulted = e.d.faulted /\ p.d.opts = e.d.opts
                               /\ SameSnap(kind, p.d.snap, e.d.snap)
         [] e.ev = "Cancel" -> p.d.after = e.d.after
         [] e.ev = "End"    -> /\ p.d.ok = e.d.ok /\ p.d.err = e.d.err /\ p.d.werr = e.d.werr
                               /\ (p.d.ok => /\ p.d.flags = e.d.flags /\ p.d.ctr = e.d.ctr
                                             /\ p.d.cred = e.d.cred /\ p.d.user = e.d.user
                                             /\ p.d.rphash = e.d.rphash /\ p.d.sigkey = e.d.sigkey
                                             /\ p.d.at = e.d.at /\ p.d.idlen = e.d.idlen
                                             /\ p.d.cose = e.d.cose /\ p.d.stored = e.d.stored
                                             /\ p.d.prfEnabled = e.d.prfEnabled
                                             /\ p.d.prf1 = e.d.prf1 /\ p.d.prf2 = e.d.prf2 /\ p.d.info = e.d.info
                                             /\ CL!ClientExplains(p.d.client, e.d.client))
         [] OTHER -> FALSE

StepOf(s) == IF s.cer.api = "client" THEN CL!Step(s.cfg, s.cer, s.store, s.nnew)
             ELSE C!Step(s.cfg, s.cer, s.store, s.nnew)

NewViol(o, k) == { [run |-> o.run, ci |-> k, inv |-> n, l |-> l] :
                     n \in { m \in P!Violated(o) : ~\E v \in viol : v.run = o.run /\ v.ci = k /\ v.inv = m } }

Next ==
    /\ l <= Len(Rec)
    /\ l' = l + 1
    /\ LET e == Rec[l]
           o == P!Observe(obs, e)
       IN /\ obs' = o
          /\ CASE e.ev = "Reset" ->
                    /\ st' = [cfg |-> e.cfg, store |-> e.store, nnew |-> 0, cer |-> Idle, lost |-> FALSE]
                    /\ ci' = 0
                    /\ UNCHANGED <<viol, drift>>
               [] e.ev = "Reconfig" ->
                    /\ st' = [st EXCEPT !.cfg = e.d.cfg]
                    /\ UNCHANGED <<viol, drift, ci>>
               [] e.ev = "Begin" ->
                    /\ st' = [st EXCEPT !.cer = IF e.d.api = "client" THEN CL!NewCer(e.d.op, e.d.req, e.d.env)
                                                ELSE C!NewCer(e.d.api, e.d.op, e.d.req, e.d.env)]
                    /\ ci' = ci + 1
                    /\ UNCHANGED <<viol, drift>>
               [] e.ev = "Snap" ->
                    \* the ceremony is over: the predicted store must be the recorded one; resynchronise
                    /\ viol' = viol \cup NewViol(o, ci)
                    /\ drift' = IF st.lost \/ (SameSnap(st.cfg.storeKind, st.store, e.d.snap) /\ st.cer.done) THEN drift
                                ELSE drift \cup {[run |-> o.run, l |-> l, what |-> "Snap"]}
                    /\ st' = [st EXCEPT !.store = e.d.snap, !.nnew = e.d.nnew, !.lost = FALSE, !.cer = Idle]
                    /\ UNCHANGED ci
               [] OTHER ->
                    /\ viol' = viol \cup NewViol(o, ci)
                    /\ UNCHANGED ci
                    /\ IF st.lost \/ st.cer.done
                       THEN /\ st' = [st EXCEPT !.lost = TRUE]
                            /\ drift' = IF st.lost THEN drift ELSE drift \cup {[run |-> o.run, l |-> l, what |-> e.ev]}
                       ELSE LET r == StepOf(st) IN
                            IF Explains(st.cfg.storeKind, r.ev, e)
                            THEN /\ st' = [st EXCEPT !.cer = r.cer, !.store = r.store, !.nnew = r.nnew]
                                 /\ UNCHANGED drift
                            ELSE /\ st' = [st EXCEPT !.lost = TRUE]
                                 /\ drift' = drift \cup {[run |-> o.run, l |-> l, what |-> e.ev]}

Spec == Init /\ [][Next]_vars

Report ==
    (l = Len(Rec) + 1) =>
        PrintT(<<"RESULT", ToJson([events |-> Len(Rec), viol |-> viol, drift |-> drift])>>)

Consumed == TLCGet("stats").diameter = Len(Rec) + 1 \/
            PrintT(<<"UNCONSUMED", TLCGet("stats").diameter, Len(Rec)>>)
=============================================================================
