CONSTANTS
  Cfgs <- C05_CfgsMem
  StoreLists <- C05_MemStores
  CerLists <- C05_Cers
  Known = {"C05.OwnRpAndAllowList", "C05.ExcludedIff", "C03.Assertion", "C03.NoEligibleCredential"}
  Export = TRUE
SPECIFICATION Spec
INVARIANT PropertiesHold
INVARIANT ExportInv
CHECK_DEADLOCK FALSE
