-------------------------------- MODULE HidInd --------------------------------
(***************************************************************************)
(* Unbounded-length complement to HidMC (C16), for Apalache: one channel   *)
(* of the receiver fed with the sender's packets of ONE message of ANY     *)
(* declared length 0..65535.  The inductive invariant says that after the  *)
(* initialisation packet and k continuation packets the receiver holds     *)
(* exactly min(total, 57 + 59k) bytes, expects sequence number k, and has  *)
(* delivered iff everything arrived - for every length, not only the       *)
(* boundary lengths TLC enumerates.  The packet capacities are literals    *)
(* (a product of two symbolic constants would make the arithmetic          *)
(* non-linear).                                                            *)
(*   apalache-mc check --inv=IndInv --length=0 HidInd.tla                  *)
(*   apalache-mc check --init=IndInit --inv=IndInv --length=1 HidInd.tla   *)
(***************************************************************************)
EXTENDS Integers

VARIABLES
    \* @type: Int;
    total,      \* declared payload length of the message being sent
    \* @type: Int;
    sent,       \* packets of it fed so far (0 = nothing yet, 1 = the initialisation packet, ...)
    \* @type: Bool;
    busy,       \* the receiver holds a partial message
    \* @type: Int;
    got,        \* bytes the receiver holds
    \* @type: Int;
    seq,        \* continuation sequence number the receiver expects
    \* @type: Bool;
    delivered   \* the message has been handed over

Min(a, b) == IF a < b THEN a ELSE b

Init == /\ total \in 0..65535 /\ sent = 0 /\ busy = FALSE /\ got = 0 /\ seq = 0 /\ delivered = FALSE

\* sender: the initialisation packet carries min(total, 57) bytes
FeedInit ==
    /\ sent = 0
    /\ sent' = 1
    /\ IF total <= 57
       THEN /\ delivered' = TRUE /\ busy' = FALSE /\ got' = total /\ seq' = 0
       ELSE /\ delivered' = FALSE /\ busy' = TRUE /\ got' = 57 /\ seq' = 0
    /\ UNCHANGED total

\* sender: continuation packet number sent-1 carries the next min(59, rest) bytes; receiver as in Hid!RecvCont
FeedCont ==
    /\ sent >= 1 /\ busy /\ ~delivered
    /\ sent' = sent + 1
    /\ IF total - got <= 59
       THEN /\ delivered' = TRUE /\ busy' = FALSE /\ got' = total /\ seq' = seq
       ELSE /\ delivered' = FALSE /\ busy' = TRUE /\ got' = got + 59 /\ seq' = seq + 1
    /\ UNCHANGED total

Done == delivered /\ UNCHANGED <<total, sent, busy, got, seq, delivered>>

Next == FeedInit \/ FeedCont \/ Done

\* the typing part and the substance
IndInv ==
    /\ total \in 0..65535 /\ sent >= 0 /\ got >= 0 /\ seq >= 0
    /\ (sent = 0 => ~busy /\ ~delivered /\ got = 0 /\ seq = 0)
    /\ (busy => /\ sent >= 1 /\ ~delivered
                /\ seq = sent - 1                       \* the next continuation number equals those consumed
                /\ got = 57 + 59 * (sent - 1)           \* exactly the bytes the sender put in these packets
                /\ got < total)
    /\ (delivered => ~busy /\ got = total /\ sent >= 1)  \* delivered exactly once, complete, on the last packet
    /\ (sent >= 1 /\ ~busy => delivered)
    \* while the sender respects its own bound (total <= 7608) the 7-bit sequence number never overflows
    /\ (busy /\ total <= 7608 => seq <= 127)

\* the inductive step starts from any state of the right types satisfying the invariant
IndInit == /\ total \in 0..65535 /\ sent \in 0..2000 /\ busy \in BOOLEAN /\ got \in 0..200000
           /\ seq \in 0..2000 /\ delivered \in BOOLEAN
           /\ IndInv
=============================================================================
