CONSTANTS
  Cfgs <- C03_Cfgs
  StoreLists <- C03_Stores
  CerLists <- C03_Cers
  Known = {}
  Export = FALSE
SPECIFICATION FairSpec
INVARIANT PropertiesHold
PROPERTY Termination
CHECK_DEADLOCK FALSE
