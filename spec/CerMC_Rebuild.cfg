CONSTANTS
  Cfgs <- Rb_Cfgs
  StoreLists <- Rb_Stores
  CerLists <- Rb_Cers
  Known = {}
  Export = TRUE
SPECIFICATION Spec
INVARIANT PropertiesHold
INVARIANT ExportInv
CHECK_DEADLOCK FALSE
