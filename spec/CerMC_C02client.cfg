CONSTANTS
  Cfgs <- C02c_Cfgs
  StoreLists <- C02_Stores
  CerLists <- C02ct_Cers
  Known = {}
  Export = TRUE
SPECIFICATION Spec
INVARIANT PropertiesHold
INVARIANT ExportInv
CHECK_DEADLOCK FALSE
