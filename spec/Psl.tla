-------------------------------- MODULE Psl --------------------------------
(***************************************************************************)
(* The publicsuffix.org matching algorithm over a rule list, as an         *)
(* executable definition.  Names and rules are sequences of labels (most   *)
(* significant label last, as written: <<"www","example","co","uk">>).     *)
(*                                                                         *)
(*   N  normal rules           "co.uk"        -> <<"co","uk">>             *)
(*   W  wildcard rules         "*.ck"         -> <<"ck">>   (the base)     *)
(*   E  exception rules        "!www.ck"      -> <<"www","ck">>            *)
(*                                                                         *)
(* https://publicsuffix.org/list/ : a domain matches a rule if the rule's  *)
(* labels equal the domain's trailing labels (a wildcard label matches any *)
(* one label); if more than one rule matches, an exception rule prevails,  *)
(* otherwise the rule with the most labels; if no rule matches the         *)
(* prevailing rule is "*"; an exception rule is used with its leftmost     *)
(* label removed; the public suffix is the labels matching the prevailing  *)
(* rule; the registrable domain (eTLD+1) is the public suffix plus one     *)
(* more label.                                                             *)
(***************************************************************************)
EXTENDS Naturals, Sequences, FiniteSets

\* the last k labels of d
Suf(d, k) == SubSeq(d, Len(d) - k + 1, Len(d))

IsSuffix(s, d) == Len(s) <= Len(d) /\ Suf(d, Len(s)) = s

MaxOf(S) == CHOOSE m \in S : \A x \in S : x <= m

\* number of labels of the public suffix of d (Len(d) >= 1)
SuffixLen(N, W, E, d) ==
    LET n == Len(d)
        exc  == { k \in 1..n : Suf(d, k) \in E }
        norm == { k \in 1..n : Suf(d, k) \in N }
        wild == { k \in 2..n : Suf(d, k - 1) \in W }
    IN IF exc # {} THEN MaxOf(exc) - 1
       ELSE IF norm \cup wild # {} THEN MaxOf(norm \cup wild)
       ELSE 1

HasEmptyLabel(d) == \E i \in 1..Len(d) : d[i] = ""

\* result of the eTLD+1 computation: number of labels, or 0 when there is none
ETld1Len(N, W, E, d) ==
    IF HasEmptyLabel(d) THEN 0
    ELSE IF Len(d) > SuffixLen(N, W, E, d) THEN SuffixLen(N, W, E, d) + 1 ELSE 0

\* a registrable domain: not itself a public suffix (and no empty label)
Registrable(N, W, E, d) == Len(d) >= 1 /\ ETld1Len(N, W, E, d) > 0

ToSet(seq) == { seq[i] : i \in 1..Len(seq) }
=============================================================================
