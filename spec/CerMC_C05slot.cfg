CONSTANTS
  Cfgs <- C05_CfgsSlot
  StoreLists <- C05_SlotStores
  CerLists <- C05_Cers
  Known = {}
  Export = TRUE
SPECIFICATION Spec
INVARIANT PropertiesHold
INVARIANT ExportInv
CHECK_DEADLOCK FALSE
