SPECIFICATION Spec
CHECK_DEADLOCK FALSE
