CONSTANTS
  Cfgs <- C05_CfgsSlot
  StoreLists <- C05_NearSlotStores
  CerLists <- C05_NearCers
  Known = {}
  Export = TRUE
SPECIFICATION Spec
INVARIANT PropertiesHold
INVARIANT ExportInv
CHECK_DEADLOCK FALSE
