"""C05 - credentials are used only for their own RP and as the allow/exclude lists say.

(a)+(b) every store content over 2 RPs x <= 3 credentials (same user handle across RPs) x every allow/exclude list
over ids + {foreign, unknown} (absent, empty, hits, misses), on the reference store implementing the documented
contract (CerMC_C05ref.cfg): the assertion uses a credential of the RP named in a non-empty allow list, an
absent/empty list selects the first listed, CredentialExcluded exactly when a listed credential is held for the
same RP, and the store receives the request's list and RP ID.
(c) the same behaviours on the shipped stores: MemoryStore (CerMC_C05mem.cfg) and Option<Passkey>
(CerMC_C05slot.cfg, contents of at most one credential), and `find_credentials` of every shipped store and lock
wrapper compared with the documented contract (spec/StoreContract.tla).
"""
from checks import cerlib
from checks import storecontract

LEVEL = "model_checking"
PREFIXES = ["C05."]


def run(chk):
    cerlib.run_config(chk, "C05ref", PREFIXES)
    cerlib.run_config(chk, "C05mem", PREFIXES)
    cerlib.run_config(chk, "C05slot", PREFIXES)
    # relying-party ids that differ from the credential's only in letter case / by a sub-domain label (shipped stores)
    cerlib.run_config(chk, "C05nearmem", PREFIXES)
    cerlib.run_config(chk, "C05nearslot", PREFIXES)
    # an exclude-list hit combined with an unsupported algorithm list / pinAuth / an rk the store cannot provide
    cerlib.run_config(chk, "C05prec", PREFIXES)
    storecontract.run(chk)
    # the exclude / allow-list lookups while another ceremony holds or wants the shared store's lock
    # (spec/Concurrent.tla, every interleaving of the pairs C05_ConcPairs, Mutex and RwLock wrappers)
    from checks import c19
    for lock in ("mutex", "rwlock"):
        c19.pairs(chk, "ConcMC_c05_%s.cfg" % lock, "c05-pairs-" + lock, ("C05.",))
    cerlib.random_histories(chk, PREFIXES, quick_n=60)
    cerlib.finish_cov(chk, "one behaviour per (store content over 2 RPs x 3 credentials, request RP, allow/exclude list, list given or not, store kind); "
                           "non-trivial = reaches a prompt or store call",
                      False, "bounded store contents and lists, exhaustive within the bound")


def replay(chk, path):
    import json
    kind = json.load(open(path))["replay"].get("kind")
    if kind == "conc":
        from checks import c19
        c19.validate(chk, [json.load(open(path))["replay"]["behaviour"]], "replay", ("C05.",))
        chk.cov["distinct_nontrivial"] = max(2, chk.cov["distinct_nontrivial"])
    elif kind == "store":
        storecontract.replay(chk, json.load(open(path))["replay"]["event"])
    else:
        cerlib.replay_file(chk, path, PREFIXES)
