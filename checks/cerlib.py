"""Shared driver for the ceremony properties: model-check a CerMC configuration, export every behaviour,
replay them on the real code (pkverif cer replay), validate the recorded trace with CerTrace.tla
(layer B explanation + layer A invariants at every event), and attribute violations to properties."""
import json
import os
import time

from lib import vlib


def expand(plans):
    beh = []
    for p in plans:
        for s in p["stores"]:
            beh.append({"cfg": p["cfg"], "store": s, "cers": p["cers"]})
    return beh


def split_runs(events):
    runs = []
    for e in events:
        if e["ev"] == "Reset":
            runs.append([])
        runs[-1].append(e)
    return runs


def ceremony_slice(run, ci):
    """events of ceremony number ci (1-based) in a run, with the store it began with"""
    k = 0
    out = []
    snap0 = run[0]["store"]
    last_snap = snap0
    for e in run[1:]:
        if e["ev"] == "Begin":
            k += 1
            if k == ci:
                snap0 = last_snap
        if k == ci:
            out.append(e)
        if e["ev"] == "Snap":
            last_snap = e["d"]["snap"]
    return snap0, out


def cause_of(cfg, snap0, cer):
    """structural signature of a violating ceremony, for known-findings matching"""
    b = cer[0]["d"]
    req = b["req"]
    end = [e for e in cer if e["ev"] == "End"]
    sig = {"storeKind": cfg["storeKind"], "op": b["op"], "api": b["api"]}
    ids = req["allow"] if b["op"] == "ga" else req["exclude"]
    given = req["allowGiven"] if b["op"] == "ga" else req["excludeGiven"]
    sig["lookup"] = "by-id" if (given and ids) else "id-less"
    by_id = {c["id"]: c for c in snap0}
    cause = "other"
    if end:
        d = end[0]["d"]
        if b["op"] == "ga" and d["ok"] and d["cred"] in by_id and by_id[d["cred"]]["rp"] != req["rp"]:
            cause = "rp_ignored"
        if b["op"] == "mc" and d["err"] == 25 and not any(i in by_id and by_id[i]["rp"] == req["rp"] for i in ids) \
                and any(i in by_id for i in ids):
            cause = "rp_ignored"
        if b["op"] == "ga" and not d["ok"] and d["err"] == 46 and sig["lookup"] == "id-less" and \
                any(c["rp"] == req["rp"] for c in snap0):
            cause = "idless_finds_nothing"
        if any(e["ev"] == "Crash" for e in cer):
            cause = "crash"
    if any(e["ev"] == "Crash" for e in cer):
        cause = "crash"
        ctrs = [c["ctr"] for c in snap0]
        if any(c["hi"] == 65535 and c["lo"] == 65535 for c in ctrs):
            cause = "crash_counter_at_max"
    sig["cause"] = cause
    return sig


def model_check(chk, cfgname, workers=8, prefixes=None):
    """Model-check one CerMC configuration and return the exported behaviours.  A state of the MODEL in which a
    layer-A invariant of this check's property is false is this check's alarm; one of another property is that
    property's business (its own check model-checks the configurations made for it): it is noted, exempted for this
    run (Known is extended in a copy of the configuration) and the run repeated."""
    import re
    cfg = "CerMC_%s.cfg" % cfgname
    t0 = time.time()
    # per-action coverage (the vacuity guard on actions) costs TLC ~40%: thorough tier only; the quick tier's guard is
    # that every configuration exports behaviours and every replay yields events
    cov = chk.tier == "thorough"
    use = cfg
    exempt = set()
    for _ in range(8):
        r = vlib.tlc("CerMC.tla", use, chk.work, workers=workers, coverage=cov, timeout=3600, xmx="8g")
        if not r.invariant_violated:
            break
        lines = [ln for ln in r.out.splitlines() if ln.startswith('<<"VIOLATED"')]
        names = set(re.findall(r'"((?:C\d\d|Any)\.[A-Za-z0-9_.]+)"', " ".join(lines)))
        mine = [n for n in names if prefixes is None or any(n.startswith(p) for p in prefixes)]
        if mine or not names:
            chk.violation({"inv": "model", "cfg": cfgname, "names": sorted(mine)[:2]},
                          "the specification itself (layer B, %s) admits a state violating %s - replay its counterexample on the code" % (cfg, sorted(mine) or lines[:1]),
                          {"kind": "tlc-counterexample", "cfg": cfg, "out": r.out[-6000:]})
            return None
        exempt |= names
        chk.note("in the model of %s an invariant of another property is false (%s): left to that property's own check, exempted here" % (cfg, sorted(names)))
        text = open(os.path.join(vlib.SPEC, cfg)).read()
        m = re.search(r"Known = \{([^}]*)\}", text)
        known = [x.strip() for x in m.group(1).split(",") if x.strip()] if m else []
        known += ['"%s"' % n for n in sorted(exempt) if '"%s"' % n not in known]
        use = os.path.join(chk.work, "exempt-" + cfg)
        open(use, "w").write(re.sub(r"Known = \{[^}]*\}", "Known = {%s}" % ", ".join(known), text))
    else:
        raise vlib.ToolError("model of %s keeps violating foreign invariants: %s" % (cfg, sorted(exempt)))
    chk.model_run(cfg, r, expect_actions=["Begin", "StepCer", "Snap"] if cov else ())
    plans = r.prints("REPLAY")
    if not plans:
        raise vlib.ToolError("no behaviours exported by " + cfg)
    chk.cov.setdefault("phase_seconds", {}).setdefault("model_check", 0)
    chk.cov["phase_seconds"]["model_check"] = round(chk.cov["phase_seconds"]["model_check"] + time.time() - t0, 1)
    return plans


def replay_and_validate(chk, behaviours, label, prefixes, seed=None, isolate=False):
    w = chk.work
    bpath = os.path.join(w, label + ".beh.ndjson")
    tpath = os.path.join(w, label + ".trace.ndjson")
    vlib.write_ndjson(bpath, behaviours)
    args = ["cer", "replay", "--in", bpath, "--out", tpath, "--seed", chk.seed if seed is None else seed]
    if isolate:
        args += ["--isolate", "1"]
    t0 = time.time()
    s = vlib.harness(args, timeout=3600)
    t1 = time.time()
    if isolate:
        chk.cov["child_crashes"] = chk.cov.get("child_crashes", 0) + s.get("child_crashes", 0)
    r = vlib.tlc("CerTrace.tla", "CerTrace.cfg", w, env={"TRACE": tpath}, workers=1, timeout=3600, depth_first=True, xmx="6g")
    vlib.tlc_must_complete(r, "CerTrace on " + label)
    ph = chk.cov.setdefault("phase_seconds", {})
    ph["replay_on_code"] = round(ph.get("replay_on_code", 0) + t1 - t0, 1)
    ph["trace_validation"] = round(ph.get("trace_validation", 0) + time.time() - t1, 1)
    res = r.prints("RESULT")
    if len(res) != 1 or "UNCONSUMED" in r.out:
        raise vlib.ToolError("CerTrace did not consume %s:\n%s" % (label, r.out[-2000:]))
    res = res[0]
    events = vlib.read_ndjson(tpath)
    runs = split_runs(events)
    nontrivial = sum(1 for run in runs if any(e["ev"] in ("Prompt", "Store") for e in run))
    chk.cov["evaluations"] += res["events"]
    chk.cov["traces_validated_against_impl"] += len(runs)
    chk.cov["distinct_nontrivial"] += nontrivial
    other = {}
    for v in sorted(res["viol"], key=lambda v: v["l"]):
        inv = v["inv"]
        if not any(inv.startswith(p) for p in prefixes):
            other[inv] = other.get(inv, 0) + 1
            continue
        run = runs[v["run"]] if v["run"] < len(runs) and runs[v["run"]][0]["run"] == v["run"] else \
            next(r_ for r_ in runs if r_[0]["run"] == v["run"])
        snap0, cer = ceremony_slice(run, v["ci"])
        sig = cause_of(run[0]["cfg"], snap0, cer)
        sig["inv"] = inv
        chk.violation(sig, "%s is false in run %d of %s, ceremony %d (%s %s): %s" % (
            inv, v["run"], label, v["ci"], cer[0]["d"]["api"], cer[0]["d"]["op"],
            json.dumps([e for e in cer if e["ev"] in ("End", "Crash", "Cancel")])[:400]),
            {"kind": "cer", "behaviour": behaviours[v["run"]], "behaviours": behaviours[max(0, v["run"] - 1):v["run"] + 1],
             "events": run})
    if other:
        chk.note("invariants of other properties false in %s (reported by their own checks): %s" % (label, other))
    if res["drift"]:
        d = sorted(res["drift"], key=lambda d: d["l"])
        chk.note("model-drift: %d event(s) of %s not explained by layer B (first: event %d %s = %s)" % (
            len(d), label, d[0]["l"], d[0]["what"], json.dumps(events[d[0]["l"] - 1])[:300]))
        chk.cov.setdefault("drift_events", 0)
        chk.cov["drift_events"] += len(d)
    if runs:
        chk.sample({"from": label, "behaviour": behaviours[len(behaviours) // 2]}, cap=4)
    os.remove(tpath)
    return res, runs


def run_config(chk, cfgname, prefixes, repeat=1):
    """repeat = 4: each behaviour runs once per salt mode of the harness (random / zero / ones / public values:
    the mode follows the behaviour's position modulo 4)"""
    plans = model_check(chk, cfgname, prefixes=prefixes)
    if plans is None:
        return
    beh = [b for b in expand(plans) for _ in range(repeat)]
    return replay_and_validate(chk, beh, cfgname, prefixes)


def random_histories(chk, prefixes, quick_n=150, thorough_n=4000):
    """implementation -> specification: long random mixed histories (checks/histsim.py)"""
    from checks import histsim
    n = thorough_n if chk.tier == "thorough" else quick_n
    if n <= 0:
        return
    beh = histsim.behaviours(chk.seed, n)
    chk.cov["random_histories"] = chk.cov.get("random_histories", 0) + n
    res = replay_and_validate(chk, beh, "random-histories", prefixes, isolate=True)
    # and histories drawn by TLC from the specification itself (spec/CerSim.tla), judged in the model as well
    tlc_histories(chk, prefixes, 5 * n if chk.tier == "thorough" else 2 * n)
    if chk.tier == "thorough":
        # long histories (up to 25 ceremonies per run)
        tlc_histories(chk, prefixes, n, depth=1000, cfg="CerSimDeep.cfg")
    return res


def tlc_histories(chk, prefixes, n, depth=400, cfg="CerSim.cfg"):
    """specification -> implementation: random mixed histories generated by TLC itself (spec/CerSim.tla, -simulate):
    every state is judged by the layer-A invariants in the model, every finished history is replayed on the code."""
    t0 = time.time()
    r = vlib.tlc("CerSim.tla", cfg, chk.work, workers=1, timeout=3600, simulate="num=%d" % n, seed=chk.seed, xmx="6g", depth=depth)
    if r.invariant_violated:
        names = [ln for ln in r.out.splitlines() if ln.startswith('<<"VIOLATED"')]
        chk.violation({"inv": "model", "cfg": "CerSim", "names": names[:1]},
                      "the specification itself (CerSim.tla, simulation) reaches a state violating %s" % names[:1],
                      {"kind": "tlc-counterexample", "cfg": cfg, "out": r.out[-6000:]})
        return None
    plans = r.prints("REPLAY")
    if len(plans) < n:
        raise vlib.ToolError("CerSim exported %d of %d histories:\n%s" % (len(plans), n, r.out[-1500:]))
    m = __import__("re").search(r"(\d+) states checked", r.out)
    chk.cov["model_runs"].append({"cfg": cfg + " (simulate)", "traces": len(plans), "states_checked": int(m.group(1)) if m else 0})
    chk.cov["states"] += int(m.group(1)) if m else 0
    chk.cov["tlc_simulated_histories"] = chk.cov.get("tlc_simulated_histories", 0) + len(plans)
    chk.cov.setdefault("phase_seconds", {})["simulation"] = round(time.time() - t0, 1)
    return replay_and_validate(chk, expand(plans), "tlc-simulated-histories" + ("-deep" if "Deep" in cfg else ""), prefixes, isolate=True)


def finish_cov(chk, rule, exhaustive, note):
    chk.cov["rule"] = rule
    chk.cov["exhaustive"] = exhaustive
    chk.cov["exhaustive_note"] = note
    chk.assumptions += [
        "cryptography is abstract in the model; byte-level verdicts (hashes, signatures, key equality) come from the harness's relying-party role using sha2/hmac/p256/ciborium as trusted base",
        "the traced store/user-validation wrappers see every suspension point of a ceremony (all are calls on these two public traits)",
        "TLC and the CommunityModules Json/IOUtils overrides are trusted"]


def replay_file(chk, path, prefixes):
    rp = json.load(open(path))["replay"]
    if rp.get("kind") != "cer":
        raise vlib.ToolError("cannot replay kind %s" % rp.get("kind"))
    beh = rp.get("behaviours") or [rp["behaviour"]]
    replay_and_validate(chk, beh, "replay", prefixes, isolate=True)
    chk.cov["distinct_nontrivial"] = max(2, chk.cov["distinct_nontrivial"])
