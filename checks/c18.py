"""C18 - the sealed CTAP2 API trait behaves exactly like the direct authenticator methods.

In spec/Ceremony.tla the trait call is DEFINED as the direct step sequence, so the obligation is conformance: every
behaviour explored for C02-C05, C07 and C11 (successful and failing, faults, cancellation) and getInfo in every
configuration, and every status byte a store call can fail with (CerMC_C18status.cfg), and commands that follow an abandoned or failed
command on the same authenticator (CerMC_C18after.cfg), is run twice on authenticators in the same state - through the direct method and through
<Authenticator as Ctap2Api> - as adjacent runs; invariant C18.SameAsDirect (spec/CerProps.tla) demands the same
terminal event (result with all relying-party verdicts, cancellation point), the same final store and the same number
of store calls / prompts, and no crash or hang.  The runs execute in isolated child processes (a stack overflow or
abort is an observation, not a tool failure).
"""
import random

from checks import cerlib
from lib import vlib

LEVEL = "model_checking"
PREFIXES = ["C18.", "Any.Crash"]
# (configuration, sampling stride in the quick tier; 0 = thorough tier only)
CONFIGS = [("C18info", 1), ("C18status", 1), ("C18after", 1), ("C11", 1), ("C04", 1), ("C02hist", 1), ("C03", 2), ("C05ref", 0), ("C07", 6)]


def via_trait(b):
    t = {"cfg": b["cfg"], "store": b["store"], "cers": []}
    for c in b["cers"]:
        c2 = dict(c)
        if c["api"] == "ctap2":
            c2["api"] = "trait"
        t["cers"].append(c2)
    return t


def replay_isolated(chk, behaviours, label):
    # same as cerlib.replay_and_validate but in child processes
    import os, json
    w = chk.work
    bpath = os.path.join(w, label + ".beh.ndjson")
    tpath = os.path.join(w, label + ".trace.ndjson")
    vlib.write_ndjson(bpath, behaviours)
    s = vlib.harness(["cer", "replay", "--in", bpath, "--out", tpath, "--seed", chk.seed, "--isolate", "1"], timeout=3600)
    chk.cov.setdefault("child_crashes", 0)
    chk.cov["child_crashes"] += s.get("child_crashes", 0)
    return tpath


def run(chk):
    thorough = chk.tier == "thorough"
    rnd = random.Random(chk.seed)
    for cfgname, stride in CONFIGS:
        if stride == 0 and not thorough:
            continue
        plans = cerlib.model_check(chk, cfgname, prefixes=PREFIXES)
        if plans is None:
            continue
        beh = cerlib.expand(plans)
        if not thorough and stride > 1:
            beh = [b for b in beh if rnd.randrange(stride) == 0]
        both = []
        for b in beh:
            both.append(b)
            both.append(via_trait(b))
        cerlib.replay_and_validate(chk, both, "C18-" + cfgname, PREFIXES, isolate=True)
    # "terminates", model side: under weak fairness every plan of these configurations runs to its end
    for base in (("C18info", "C03", "C07", "C11client") if thorough else ("C18info",)):
        cfg = "CerMC_%slive.cfg" % base
        r = vlib.tlc("CerMC.tla", cfg, chk.work, workers=6, timeout=3600, xmx="8g")
        if r.temporal_violated or r.invariant_violated:
            chk.violation({"inv": "model:Termination", "cfg": cfg},
                          "the model (CerMC.tla, %s) has a fair behaviour in which a ceremony never ends, or violates %s" % (cfg, r.invariant_violated[:1]),
                          {"kind": "tlc", "cfg": cfg, "out": r.out[-5000:]})
            continue
        vlib.tlc_must_complete(r, cfg)
        chk.cov["model_runs"].append({"cfg": cfg, "distinct_states": r.distinct, "states_generated": r.generated, "depth": r.depth,
                                      "temporal": "<>Done under WF_vars(Next): holds"})
    cerlib.finish_cov(chk, "each behaviour of the C02-C05/C07/C11 configurations and getInfo in every configuration, run through the direct method and through the trait (adjacent runs); "
                           "quick tier samples 1/6 of C07 and 1/2 of C03 and leaves C05ref to the thorough tier",
                      False, "conformance over the behaviour sets of the other ceremony checks; termination: a liveness property of the model (FairSpec => <>Done), observed on the code (a ceremony polled 100 000 times without ending is recorded as Hung)")


def replay(chk, path):
    cerlib.replay_file(chk, path, PREFIXES)
