"""C18 - the sealed CTAP2 API trait behaves exactly like the direct authenticator methods.

In spec/Ceremony.tla the trait call is DEFINED as the direct step sequence, so the obligation is conformance: every
behaviour explored for C02-C05, C07 and C11 (successful and failing, faults, cancellation) and getInfo in every
configuration, and every status byte a store call can fail with (CerMC_C18status.cfg), is run twice on authenticators in the same state - through the direct method and through
<Authenticator as Ctap2Api> - as adjacent runs; invariant C18.SameAsDirect (spec/CerProps.tla) demands the same
terminal event (result with all relying-party verdicts, cancellation point), the same final store and the same number
of store calls / prompts, and no crash or hang.  The runs execute in isolated child processes (a stack overflow or
abort is an observation, not a tool failure).
"""
import random

from checks import cerlib
from lib import vlib

LEVEL = "model_checking"
PREFIXES = ["C18.", "Any.Crash"]
# (configuration, sampling stride in the quick tier; 0 = thorough tier only)
CONFIGS = [("C18info", 1), ("C18status", 1), ("C11", 1), ("C04", 1), ("C02hist", 1), ("C03", 2), ("C05ref", 0), ("C07", 6)]


def via_trait(b):
    t = {"cfg": b["cfg"], "store": b["store"], "cers": []}
    for c in b["cers"]:
        c2 = dict(c)
        if c["api"] == "ctap2":
            c2["api"] = "trait"
        t["cers"].append(c2)
    return t


def replay_isolated(chk, behaviours, label):
    # same as cerlib.replay_and_validate but in child processes
    import os, json
    w = chk.work
    bpath = os.path.join(w, label + ".beh.ndjson")
    tpath = os.path.join(w, label + ".trace.ndjson")
    vlib.write_ndjson(bpath, behaviours)
    s = vlib.harness(["cer", "replay", "--in", bpath, "--out", tpath, "--seed", chk.seed, "--isolate", "1"], timeout=3600)
    chk.cov.setdefault("child_crashes", 0)
    chk.cov["child_crashes"] += s.get("child_crashes", 0)
    return tpath


def run(chk):
    thorough = chk.tier == "thorough"
    rnd = random.Random(chk.seed)
    for cfgname, stride in CONFIGS:
        if stride == 0 and not thorough:
            continue
        plans = cerlib.model_check(chk, cfgname, prefixes=PREFIXES)
        if plans is None:
            continue
        beh = cerlib.expand(plans)
        if not thorough and stride > 1:
            beh = [b for b in beh if rnd.randrange(stride) == 0]
        both = []
        for b in beh:
            both.append(b)
            both.append(via_trait(b))
        cerlib.replay_and_validate(chk, both, "C18-" + cfgname, PREFIXES, isolate=True)
    cerlib.finish_cov(chk, "each behaviour of the C02-C05/C07/C11 configurations and getInfo in every configuration, run through the direct method and through the trait (adjacent runs); "
                           "quick tier samples 1/6 of C07 and 1/2 of C03 and leaves C05ref to the thorough tier",
                      False, "conformance over the behaviour sets of the other ceremony checks; termination is observed, not proved")


def replay(chk, path):
    cerlib.replay_file(chk, path, PREFIXES)
