"""C05 (c): find_credentials of the shipped stores against the documented contract (spec/StoreContract.tla)."""
import collections
import json
import os

from lib import vlib


def run(chk):
    w = chk.work
    r = vlib.tlc("StoreContract.tla", "StoreContract.cfg", w, workers=1, timeout=600)
    vlib.tlc_must_complete(r, "StoreContract cases")
    cases = r.prints("CASES")[0]
    cpath = os.path.join(w, "storecases.json")
    json.dump(cases, open(cpath, "w"))
    tpath = os.path.join(w, "stores.ndjson")
    s = vlib.harness(["stores", "--cases", cpath, "--out", tpath, "--seed", chk.seed])
    r = vlib.tlc("StoreContract.tla", "StoreContract.cfg", w, env={"TRACE": tpath}, workers=1, timeout=1800, xmx="6g")
    vlib.tlc_must_complete(r, "StoreContract judge")
    res = r.prints("RESULT")[0]
    events = vlib.read_ndjson(tpath)
    if res["events"] != s["events"]:
        raise vlib.ToolError("store contract: event count mismatch")
    seen = collections.Counter()
    for i in res["viol"]:
        e = events[i - 1]
        held = e["content"][:1] if e["slot"] else e["content"]
        expected = sorted(c["id"] for c in held if c["rp"] == e["rp"] and (not e["given"] or c["id"] in e["ids"]))
        extra = [f for f in e["found"] if f not in expected]
        by_id = {c["id"]: c for c in held}
        if e["crash"]:
            cause = "crash"
        elif extra and all(f in by_id and by_id[f]["rp"] != e["rp"] for f in extra) and not [x for x in expected if x not in e["found"]]:
            cause = "rp_ignored"
        elif not e["found"] and expected and not e["given"]:
            cause = "idless_finds_nothing"
        else:
            cause = "other"
        base = "memory" if "MemoryStore" in e["store"] else "slot"
        sig = {"inv": "C05.ShippedStoreContract", "storeKind": base, "lookup": "by-id" if e["given"] else "id-less", "cause": cause}
        key = json.dumps([sig, e["store"]], sort_keys=True)
        seen[key] += 1
        if seen[key] > 1:
            continue
        sig["store"] = e["store"]
        chk.violation(sig, "%s.find_credentials(ids=%s, rp=%s) on %s returned %s (ok=%s err=%s); the contract gives %s" % (
            e["store"], e["ids"] if e["given"] else "None", e["rp"], [(c["id"], c["rp"]) for c in e["content"]], e["found"], e["ok"], e["err"], expected),
            {"kind": "store", "event": e})
    chk.cov["evaluations"] += res["events"]
    chk.cov["distinct_nontrivial"] += len(cases)
    chk.cov["store_contract_cases"] = len(cases)
    chk.cov["store_types"] = s["stores"]
    chk.cov["traces_validated_against_impl"] += 1
    chk.sample({"store_contract_event": events[len(events) // 2]})


def replay(chk, event):
    """re-run one recorded lookup: the case is (content, ids, given, rp) of the event"""
    w = chk.work
    case = {"content": event["content"], "ids": event["ids"], "given": event["given"], "rp": event["rp"]}
    cpath = os.path.join(w, "storecases.json")
    json.dump([case], open(cpath, "w"))
    tpath = os.path.join(w, "stores.ndjson")
    vlib.harness(["stores", "--cases", cpath, "--out", tpath, "--seed", chk.seed])
    r = vlib.tlc("StoreContract.tla", "StoreContract.cfg", w, env={"TRACE": tpath}, workers=1, timeout=600)
    vlib.tlc_must_complete(r, "StoreContract judge")
    res = r.prints("RESULT")[0]
    events = vlib.read_ndjson(tpath)
    for i in res["viol"]:
        e = events[i - 1]
        if e["store"] == event["store"]:
            chk.violation({"inv": "C05.ShippedStoreContract", "store": e["store"], "cause": "replay"},
                          "%s.find_credentials(ids=%s, rp=%s) returned %s" % (e["store"], e["ids"] if e["given"] else "None", e["rp"], e["found"]),
                          {"kind": "store", "event": e})
    chk.cov["evaluations"] += res["events"]
    chk.cov["distinct_nontrivial"] = max(2, chk.cov["distinct_nontrivial"])
