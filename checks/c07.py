"""C07 - failed or cancelled ceremonies leave the credential store consistent.

TLC places a fault (CTAP1 error, known CTAP2 error, vendor error) on every fallible store call of the ceremony,
singly and in every combination, and drops the operation at every gate (before/after each trait call), across
requests with/without exclude/allow lists, rk (extra capability query), PRF evaluation and counters
(CerMC_C07.cfg).  Each behaviour is replayed on the real Authenticator with the instrumented store injecting the
fault / the executor dropping the future, and the C07 invariants are evaluated after every recorded event.
"""
from checks import cerlib

LEVEL = "fault_enumeration"
PREFIXES = ["C07.", "Any.Crash"]


def run(chk):
    cerlib.run_config(chk, "C07", PREFIXES)
    # the same clauses through the WebAuthn client (its own steps around the ceremony can fail or be dropped too)
    cerlib.run_config(chk, "C07client", PREFIXES)
    # a store that fails with the status byte 0x00 (layer A only, see CerMC.tla)
    cerlib.run_config(chk, "C07zero", PREFIXES)
    cerlib.random_histories(chk, PREFIXES, quick_n=150)
    cerlib.finish_cov(chk,
                      "one behaviour per (request shape, fault plan over the 3 fallible store calls with 4 status classes each, cancel point -1..6); "
                      "non-trivial = the run reaches a prompt or a store call",
                      True, "exhaustive over the call sites, status classes and gates of the configuration; status bytes within a class are representatives")


def replay(chk, path):
    cerlib.replay_file(chk, path, PREFIXES)
