"""C11 - discoverability follows request and store capability and is reported truthfully.

The product store capability (3) x CTAP-level rk (2), and through the client residentKey (4) x requireResidentKey (2)
x credProps (3) x capability (3), each followed by an assertion, is enumerated completely (CerMC_C11.cfg,
CerMC_C11client.cfg), replayed on the real code and validated with the C11 invariants.
"""
from checks import cerlib

LEVEL = "model_checking"
PREFIXES = ["C11.", "Any.Crash"]


def run(chk):
    cerlib.run_config(chk, "C11", PREFIXES)
    cerlib.run_config(chk, "C11client", PREFIXES)
    # credProps next to other extension requests, on authenticators with and without PRF support (the configuration C14
    # uses for what the client emits)
    cerlib.run_config(chk, "C14emit", PREFIXES)
    cerlib.random_histories(chk, PREFIXES, quick_n=0)
    cerlib.finish_cov(chk, "every element of the C11 product is one behaviour (registration followed by an assertion)", True,
                      "the product named in the property's quantifier is enumerated completely")


def replay(chk, path):
    cerlib.replay_file(chk, path, PREFIXES)
