"""C17 - U2F registration and authentication messages are well-formed and verifiable.

Ceremonies (CerMC_C17.cfg): histories register / authenticate (unknown) / register / authenticate / authenticate over
two applications, key handles of 0, 1, 32 and 255 bytes, counters {0, 1, 2^32-1}, presence flags, on the reference
store and Option<Passkey>; the relying-party role verifies the registration signature over
0x00 || application || challenge || key handle || public key and the authentication signature over
application || presence || counter (big endian) || challenge under the key recorded at registration.
Encodings and parsing (spec/U2f.tla): response layouts and every well-formed extended-length request frame
enumerated by TLC, observed through encode() / Request::try_from, judged in one TLC batch.
"""
import json
import os

from checks import cerlib
from lib import vlib

LEVEL = "model_checking"
PREFIXES = ["C17.", "Any.Crash"]


def encodings(chk):
    w = chk.work
    r = vlib.tlc("U2f.tla", "U2f.cfg", w, workers=1, timeout=600)
    vlib.tlc_must_complete(r, "U2f cases")
    cases = r.prints("CASES")[0]
    cpath = os.path.join(w, "u2fcases.json")
    json.dump(cases, open(cpath, "w"))
    tpath = os.path.join(w, "u2f.ndjson")
    s = vlib.harness(["u2f", "--cases", cpath, "--out", tpath, "--seed", chk.seed, "--n", 2000 if chk.tier == "thorough" else 300,
                      "--reps", 40 if chk.tier == "thorough" else 5])
    r = vlib.tlc("U2f.tla", "U2f.cfg", w, env={"TRACE": tpath}, workers=1, timeout=1800, xmx="4g")
    vlib.tlc_must_complete(r, "U2f judge")
    res = r.prints("RESULT")[0]
    ev = vlib.read_ndjson(tpath)
    seen = set()
    for i in res["viol"]:
        e = ev[i - 1]
        key = (e["kind"], e["ins"], e["p1"], e["hl"], e["le"], e["res"])
        if key in seen:
            continue
        seen.add(key)
        chk.violation({"inv": "C17.Encoding", "kind": e["kind"], "ins": e["ins"], "le": e["le"], "res": e["res"]},
                      "U2F %s does not follow the raw message format: %s" % (e["kind"], json.dumps(e)), {"kind": "u2f", "event": e})
    chk.cov["evaluations"] += res["events"]
    chk.cov["distinct_nontrivial"] += len(cases) + 3
    chk.cov["u2f_frame_cases"] = len(cases)
    chk.cov["traces_validated_against_impl"] += 1
    chk.sample({"u2f_frame_event": ev[-1]})


def run(chk):
    cerlib.run_config(chk, "C17", PREFIXES)
    encodings(chk)
    cerlib.finish_cov(chk, "one behaviour per (applications, key handle lengths, counter, presence flags) history; plus response encodings for handle/certificate/signature length classes and every well-formed frame case (ins, p1, handle length, Le)",
                      False, "bounded histories; frame cases exhaustive over the enumerated classes, field contents random")


def replay(chk, path):
    rp = json.load(open(path))["replay"]
    if rp.get("kind") == "cer":
        cerlib.replay_file(chk, path, PREFIXES)
    else:
        encodings(chk)
