"""C08 - signature counters strictly increase and equal what the store holds.

Histories of up to three ceremonies (assertions on a counter-bearing and a counter-less credential, with and without
extension requests, interleaved with a registration) from every starting counter in
{none, 0, 1, 2^31-1, 2^31, 2^32-2, 2^32-1} (CerMC_C08.cfg; counters are two 16-bit limbs because TLC integers are
32-bit), model-checked, replayed on the real Authenticator and validated with the C08 invariants.
"""
from checks import cerlib

LEVEL = "model_checking"
PREFIXES = ["C08.", "Any.Crash"]


def run(chk):
    cerlib.run_config(chk, "C08", PREFIXES)
    cerlib.run_config(chk, "C08client", PREFIXES)
    cerlib.run_config(chk, "Rebuild", PREFIXES)      # credentials made with / without counters, used under the other configuration
    cerlib.random_histories(chk, PREFIXES, quick_n=100)
    cerlib.finish_cov(chk, "one behaviour per (starting counters of two credentials, sequence of 1..3 ceremonies); non-trivial = reaches a prompt or store call",
                      False, "bounded histories (<= 3 ceremonies, 2 credentials), exhaustive within the bound")


def replay(chk, path):
    cerlib.replay_file(chk, path, PREFIXES)
