"""C06 - private keys and PRF secrets never appear in anything handed back to callers.

The specification supplies the histories (the behaviour sets of C03, C09, C17 and getInfo: credentials with both /
gated-only / no PRF secrets, registrations and assertions with PRF evaluation, U2F) and the rule (invariants
C06.NoSecretInOutput / C06.PublicParametersOnly in spec/CerProps.tla); the deciding observation is a byte search done by
the harness: after every ceremony the secrets are read back from the store (private scalar d, both PRF secrets) and
searched for in every serialisation (CBOR, JSON, Debug, U2F encoding) of every value returned - results, errors,
getInfo - and in the Debug rendering of every stored passkey, in raw, hex (both cases), decimal-list, base64 and
base64url (padded and not) form, plus 16-byte prefixes.
"""
from checks import cerlib

LEVEL = "exploration"
PREFIXES = ["C06."]


def run(chk):
    cerlib.run_config(chk, "Rebuild", PREFIXES, repeat=4)
    for cfg in ["C09", "C09client", "C03clientQ", "C02hist", "C17", "C18info"] + (["C03", "C02client"] if chk.tier == "thorough" else []):
        cerlib.run_config(chk, cfg, PREFIXES)
    cerlib.random_histories(chk, PREFIXES, quick_n=100)
    cerlib.finish_cov(chk, "every ceremony of the C09/C03/C02/C17/getInfo behaviour sets is one evaluation: all its returned values x all stored secrets x 11 encodings are searched; "
                           "non-trivial = the ceremony reached a prompt or store call",
                      False, "histories from the bounded models; the search itself is harness code (byte search), not TLA+")
    chk.assumptions.append("a secret that is transformed (encrypted, hashed, split) before being returned would not be found by a byte search")


def replay(chk, path):
    cerlib.replay_file(chk, path, PREFIXES)
