"""C14 - WebAuthn JSON parses leniently, re-parses when emitted, client data keeps order.

spec/JsonCodec.tla: the case space of presentations (binary members as byte array / base64url / base64, padded or not;
timeouts and algorithm identifiers as number / numeric string / integral float; an unknown string in each
enumeration-valued place; an unknown member at each nesting level; optional-member patterns) for creation and request
options - the full product is enumerated by TLC -, base64url as an executable TLA+ definition, and the client-data key
order rule.  `pkverif jsoncodec` renders each presented document and the canonical one, parses both with the real
types and compares the values; encodes/decodes byte strings of every length 0..66 (compared with the TLA+ definition)
and random ones up to 4 kB; serialises collected client data with extras and unknown members in random key orders.
Every credential emitted in the client ceremonies is re-parsed from its JSON (invariant C14.EmittedReparses on the
client configurations of C02/C03).
"""
import json
import os

from checks import batchlib, cerlib
from lib import vlib

LEVEL = "exploration"
PREFIXES = ["C14."]


def run(chk):
    w = chk.work
    cases = batchlib.cases_of(chk, "JsonCodec")
    cpath = os.path.join(w, "jsoncases.json")
    json.dump(cases, open(cpath, "w"))
    tpath = os.path.join(w, "jsoncodec.ndjson")
    thorough = chk.tier == "thorough"
    vlib.harness(["jsoncodec", "--cases", cpath, "--out", tpath, "--seed", chk.seed, "--random-b64", 3000 if thorough else 300,
                  "--cd", 4000 if thorough else 400])
    res = batchlib.judge(chk, "JsonCodec", tpath)
    ev = vlib.read_ndjson(tpath)
    seen = set()
    kinds = {}
    for e in ev:
        kinds[e["kind"]] = kinds.get(e["kind"], 0) + 1
    for i in res["viol"]:
        e = ev[i - 1]
        if e["kind"] == "parse":
            c = e["case"]
            key = ("parse", c["req"], c["bin"] if "b64" in e["parse"] or not e["same"] else "", c["timeout"], c["alg"], c["enum"], c["member"])
        else:
            key = (e["kind"], len(e["bytes"]) if e["kind"] == "b64" else json.dumps([e["extra"], e["unknown"]]))
        if key in seen:
            continue
        seen.add(key)
        chk.violation({"inv": "C14." + e["kind"], "case": e["case"], "parse": e["parse"][:40]},
                      "C14 %s case: %s" % (e["kind"], json.dumps({k: e[k] for k in e if k not in ("bytes", "enc")})[:600]),
                      {"kind": "jsoncodec", "event": e})
    chk.cov["evaluations"] += res["events"]
    chk.cov["distinct_nontrivial"] += len(cases)
    chk.cov["by_kind"] = kinds
    chk.sample(ev[len(cases) // 2])
    chk.sample([e for e in ev if e["kind"] == "cd"][3])
    cerlib.run_config(chk, "C03clientQ", PREFIXES)
    # ... and what the client emits for authenticators built with the default transports, none, or one; with and
    # without extension outputs (credProps, prf)
    cerlib.run_config(chk, "C14emit", PREFIXES)
    if thorough:
        cerlib.run_config(chk, "C02client", PREFIXES)
    chk.cov["rule"] = ("parse: the full product of presentations (request type x binary presentation x timeout x algorithm presentation x unknown enumeration place x unknown member level x optional pattern), "
                       "each rendered with random byte strings; base64url: lengths 0..66 in three patterns (judged against the TLA+ definition) and random strings up to 4 kB; "
                       "client data: random extras/unknown members in random key orders; emitted credentials: every client ceremony of C03clientQ")
    chk.cov["exhaustive"] = False
    chk.assumptions += ["serde_json (preserve_order) is trusted as the generic JSON reader on the observation side",
                        "two parsed requests are the same value when their re-serialisation and Debug rendering agree"]


def replay(chk, path):
    run(chk)
