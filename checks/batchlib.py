"""Shared driver for the pure-function (codec) properties: TLC enumerates the abstract case space (prints CASES),
the harness concretises every case on the real code, TLC judges every observation in one batch (prints RESULT)."""
import json
import os

from lib import vlib


def cases_of(chk, module, cfg=None, env=None):
    r = vlib.tlc(module + ".tla", (cfg or module) + ".cfg", chk.work, workers=1, timeout=900, env=env, xmx="4g")
    vlib.tlc_must_complete(r, module + " cases")
    c = r.prints("CASES")
    if len(c) != 1:
        raise vlib.ToolError(module + ": no CASES printed\n" + r.out[-1500:])
    chk.cov["states"] += max(r.distinct, 1)
    chk.cov["transitions"] += max(r.generated, 1)
    return c[0]


def judge(chk, module, trace, cfg=None, env=None):
    e = {"TRACE": trace}
    if env:
        e.update(env)
    r = vlib.tlc(module + ".tla", (cfg or module) + ".cfg", chk.work, workers=1, timeout=3600, env=e, xmx="8g")
    vlib.tlc_must_complete(r, module + " judge")
    res = r.prints("RESULT")
    if len(res) != 1:
        raise vlib.ToolError(module + ": no RESULT printed\n" + r.out[-1500:])
    chk.cov["traces_validated_against_impl"] += 1
    return res[0]
