"""bin/check --setup: build the harness offline, parse every specification, run the binding self-tests."""
import glob
import json
import os

from lib import vlib


def selftest_hid(work):
    """The binding is real: a corrupted field and a removed event must both be noticed by HidTrace."""
    beh = {"plan": {"1": [{"id": 11, "cmd": 1, "len": 175}], "2": [{"id": 21, "cmd": 1, "len": 116}]},
           "strays": [], "sched": [1, 2, 1, 2, 1]}
    b = os.path.join(work, "b.ndjson")
    t = os.path.join(work, "t.ndjson")
    vlib.write_ndjson(b, [beh])
    vlib.harness(["hid", "replay", "--in", b, "--out", t, "--seed", 1])
    ev = vlib.read_ndjson(t)

    def verdict(events):
        p = os.path.join(work, "x.ndjson")
        vlib.write_ndjson(p, events)
        r = vlib.tlc("HidTrace.tla", "HidTrace.cfg", work, env={"TRACE": p}, workers=1, timeout=300, depth_first=True)
        vlib.tlc_must_complete(r, "selftest")
        res = r.prints("RESULT")[0]
        return len(res["viol"]), len(res["drift"])

    good = verdict(ev)
    if good != (0, 0):
        raise vlib.ToolError("selftest: good HID trace not accepted: %s" % (good,))
    # corrupt one recorded field: the last delivery claims a different payload
    bad = json.loads(json.dumps(ev))
    last = [e for e in bad if e["ev"] == "Feed" and e["out"] == "msg"][-1]
    last["peq"] = [99]
    if verdict(bad)[0] == 0:
        raise vlib.ToolError("selftest: corrupted delivery not detected")
    # remove one event: a continuation packet disappears from the log
    idx = [i for i, e in enumerate(ev) if e["ev"] == "Feed" and e["kind"] == "cont"][0]
    cut = ev[:idx] + ev[idx + 1:]
    v, d = verdict(cut)
    if v == 0 and d == 0:
        raise vlib.ToolError("selftest: removed event not detected")
    return "hid binding self-test ok"


def selftest_ceremony(work):
    """One straight-line register + authenticate behaviour: accepted as recorded, rejected when a recorded field is
    corrupted (layer A) and flagged as drift when an event is removed (layer B)."""
    beh = {"cfg": {"uvCap": "configured", "upCap": True, "counterOn": True, "idLen": 16, "hmac": "off", "mc": False,
                   "storeKind": "reference", "disc": "full", "emptyAsErr": False, "wrap": "none", "tr": "default", "order": "oldest"},
           "store": [],
           "cers": [{"api": "ctap2", "op": op, "req": {"rp": "r1", "user": "u1", "algs": ["ES256"], "exclude": [], "excludeGiven": False,
                                                     "allow": [], "allowGiven": False, "rk": op == "mc", "up": True, "uv": True, "pinAuth": False,
                                                     "hs": "absent", "prf": {"given": False, "eval": "absent", "byCred": [], "byCredGiven": False},
                                                     "cdh": "h"},
                     "env": {"uv": {"kind": "ok", "pres": True, "verif": True, "err": 0}, "faults": [0, 0, 0], "cancelAt": -1}}
                    for op in ("mc", "ga")]}
    b = os.path.join(work, "cb.ndjson")
    t = os.path.join(work, "ct.ndjson")
    vlib.write_ndjson(b, [beh])
    vlib.harness(["cer", "replay", "--in", b, "--out", t, "--seed", 1])
    ev = vlib.read_ndjson(t)

    def verdict(events):
        p = os.path.join(work, "cx.ndjson")
        vlib.write_ndjson(p, events)
        r = vlib.tlc("CerTrace.tla", "CerTrace.cfg", work, env={"TRACE": p}, workers=1, timeout=300, depth_first=True)
        vlib.tlc_must_complete(r, "ceremony selftest")
        res = r.prints("RESULT")[0]
        return {v["inv"] for v in res["viol"]}, len(res["drift"])

    if verdict(ev) != (set(), 0):
        raise vlib.ToolError("selftest: good ceremony trace not accepted: %s" % (verdict(ev),))
    bad = json.loads(json.dumps(ev))
    end = [e for e in bad if e["ev"] == "End"][-1]
    end["d"]["ctr"] = {"hi": 0, "lo": 0}          # the assertion claims the counter did not move
    v, d = verdict(bad)
    if "C08.IncrementByOne" not in v:
        raise vlib.ToolError("selftest: corrupted counter not detected (%s)" % v)
    idx = [i for i, e in enumerate(ev) if e["ev"] == "Prompt"][-1]
    v, d = verdict(ev[:idx] + ev[idx + 1:])      # the consent prompt disappears from the log
    if not ({"C04.ConsentBeforeSignature", "C04.FlagsTruthful"} & v) or d == 0:
        raise vlib.ToolError("selftest: removed prompt not detected (%s, drift %d)" % (v, d))
    return "ceremony binding self-test ok"


def run():
    try:
        dt = vlib.build_harness()
        vlib.log("harness built in %.1fs" % dt)
        for f in sorted(glob.glob(os.path.join(vlib.SPEC, "*.tla"))):
            p = vlib.sh(["tla-sany", os.path.basename(f)], cwd=vlib.SPEC, check=False, timeout=300)
            if p.returncode != 0 or "*** Errors" in (p.stdout or "") or "Fatal errors" in (p.stdout or ""):
                raise vlib.ToolError("SANY rejects %s:\n%s" % (f, (p.stdout or "")[-2000:]))
        vlib.log("SANY: %d modules parse" % len(glob.glob(os.path.join(vlib.SPEC, "*.tla"))))
        work = os.path.join(vlib.ROOT, "work", "setup.%d" % os.getpid())
        os.makedirs(work, exist_ok=True)
        vlib.log(selftest_hid(work))
        p = vlib.sh([vlib.BIN, "cer", "selftest"], check=False)
        if p.returncode != 0:
            raise vlib.ToolError("harness self-test (SHA-256 / HMAC vectors, base64url, secret-scan needles) failed:\n" + (p.stdout or ""))
        vlib.log("harness self-test ok (hash vectors, base64url, leak-scan needles)")
        vlib.log(selftest_ceremony(work))
        import shutil
        shutil.rmtree(work, ignore_errors=True)
        return 0
    except vlib.ToolError as e:
        print("TOOL-ERROR setup:", e)
        return 2
