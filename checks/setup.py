"""bin/check --setup: build the harness offline, parse every specification, run the binding self-tests."""
import glob
import json
import os

from lib import vlib


def selftest_hid(work):
    """The binding is real: a corrupted field and a removed event must both be noticed by HidTrace."""
    beh = {"plan": {"1": [{"id": 11, "cmd": 1, "len": 175}], "2": [{"id": 21, "cmd": 1, "len": 116}]},
           "strays": [], "sched": [1, 2, 1, 2, 1]}
    b = os.path.join(work, "b.ndjson")
    t = os.path.join(work, "t.ndjson")
    vlib.write_ndjson(b, [beh])
    vlib.harness(["hid", "replay", "--in", b, "--out", t, "--seed", 1])
    ev = vlib.read_ndjson(t)

    def verdict(events):
        p = os.path.join(work, "x.ndjson")
        vlib.write_ndjson(p, events)
        r = vlib.tlc("HidTrace.tla", "HidTrace.cfg", work, env={"TRACE": p}, workers=1, timeout=300, depth_first=True)
        vlib.tlc_must_complete(r, "selftest")
        res = r.prints("RESULT")[0]
        return len(res["viol"]), len(res["drift"])

    good = verdict(ev)
    if good != (0, 0):
        raise vlib.ToolError("selftest: good HID trace not accepted: %s" % (good,))
    # corrupt one recorded field: the last delivery claims a different payload
    bad = json.loads(json.dumps(ev))
    last = [e for e in bad if e["ev"] == "Feed" and e["out"] == "msg"][-1]
    last["peq"] = [99]
    if verdict(bad)[0] == 0:
        raise vlib.ToolError("selftest: corrupted delivery not detected")
    # remove one event: a continuation packet disappears from the log
    idx = [i for i, e in enumerate(ev) if e["ev"] == "Feed" and e["kind"] == "cont"][0]
    cut = ev[:idx] + ev[idx + 1:]
    v, d = verdict(cut)
    if v == 0 and d == 0:
        raise vlib.ToolError("selftest: removed event not detected")
    return "hid binding self-test ok"


def run():
    try:
        dt = vlib.build_harness()
        vlib.log("harness built in %.1fs" % dt)
        for f in sorted(glob.glob(os.path.join(vlib.SPEC, "*.tla"))):
            p = vlib.sh(["tla-sany", os.path.basename(f)], cwd=vlib.SPEC, check=False, timeout=300)
            if p.returncode != 0 or "*** Errors" in (p.stdout or "") or "Fatal errors" in (p.stdout or ""):
                raise vlib.ToolError("SANY rejects %s:\n%s" % (f, (p.stdout or "")[-2000:]))
        vlib.log("SANY: %d modules parse" % len(glob.glob(os.path.join(vlib.SPEC, "*.tla"))))
        work = os.path.join(vlib.ROOT, "work", "setup.%d" % os.getpid())
        os.makedirs(work, exist_ok=True)
        vlib.log(selftest_hid(work))
        import shutil
        shutil.rmtree(work, ignore_errors=True)
        return 0
    except vlib.ToolError as e:
        print("TOOL-ERROR setup:", e)
        return 2
