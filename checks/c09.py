"""C09 - PRF results are the specified HMAC, per credential, and gated on verification.

Authenticator level (CerMC_C09.cfg): authenticator configuration (no hmac-secret, UV-only, with non-UV secret) x
evaluation at creation on/off x credentials with both / gated-only / no secrets x request shapes (absent, no eval,
one/two values, per-credential entries for the used / another / an unknown credential, both) x verification
requested / performed.  Client level (CerMC_C09client.cfg): prf / prfAlreadyHashed / both, input lengths
{0,1,31,32,33,1000}, malformed requests (per-credential inputs at registration or without allow list, empty /
undecodable / unlisted keys, pre-hashed inputs of the wrong length).
The bytes: the harness recomputes HMAC-SHA-256 (hmac/sha2 crates) for every candidate (secret read back from the
store, salt = SHA-256("WebAuthn PRF" || 0 || input) or the raw 32-byte input) and reports WHICH pair each returned
value equals; the C09 invariants of spec/CerProps.tla decide whether that is the pair the property demands.
"""
from checks import cerlib

LEVEL = "model_checking"
PREFIXES = ["C09.", "Any.Crash"]


def run(chk):
    cerlib.run_config(chk, "C09", PREFIXES)
    cerlib.run_config(chk, "C09client", PREFIXES)
    cerlib.run_config(chk, "Rebuild", PREFIXES, repeat=4)      # PRF secrets made under one configuration, evaluated under another
    cerlib.random_histories(chk, PREFIXES, quick_n=100)
    cerlib.finish_cov(chk, "one behaviour per (authenticator PRF configuration, stored secret shape, request shape, verification requested/performed); "
                           "client: per (member kind, eval shape, per-credential keys incl. malformed, allow list, input length class)",
                      False, "bounded request shapes, abstract HMAC in the model, bytes recomputed by the harness; exhaustive within the bound")


def replay(chk, path):
    cerlib.replay_file(chk, path, PREFIXES)
