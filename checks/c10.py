"""C10 - public-suffix lookups agree with the shipped list under the PSL algorithm.

Oracle: spec/Psl.tla (the publicsuffix.org algorithm as an executable TLA+ definition) evaluated by TLC
over the rules parsed from /repo/public-suffix/public_suffix_list.dat (spec/PslBatch.tla).
Binding: `pkverif psl probe` calls public_suffix / effective_tld_plus_one / is_effective_tld on names derived
from EVERY rule of the list plus arbitrary strings and records the results; TLC judges every record.
"""
import json
import os

from lib import vlib

LEVEL = "model_checking"


def batch(chk, trace, rules, label):
    r = vlib.tlc("PslBatch.tla", "PslBatch.cfg", chk.work, env={"TRACE": trace, "RULES": rules},
                 workers=1, timeout=3600, xmx="8g")
    vlib.tlc_must_complete(r, "PslBatch " + label)
    res = r.prints("RESULT")
    if len(res) != 1:
        raise vlib.ToolError("PslBatch printed no result:\n" + r.out[-2000:])
    return res[0]


def run(chk):
    thorough = chk.tier == "thorough"
    w = chk.work
    trace = os.path.join(w, "psl.ndjson")
    rules = os.path.join(w, "rules.ndjson")
    # every variant per rule in both tiers (it costs seconds); the thorough tier adds more arbitrary strings
    args = ["psl", "probe", "--out", trace, "--rules-out", rules, "--seed", chk.seed, "--thorough", "1",
            "--arbitrary", 200000 if thorough else 20000]
    s = vlib.harness(args)
    res = batch(chk, trace, rules, "probe")
    if res["events"] != s["events"] or res["rules"] != s["rules"]:
        raise vlib.ToolError("event/rule count mismatch between harness and TLC: %s vs %s" % (s, res))
    events = vlib.read_ndjson(trace)
    names = set()
    for e in events:
        if e["k"] == "canon":
            names.add(".".join(e["d"]))
    for i in res["viol"]:
        e = events[i - 1]
        name = ".".join(e["d"]) if e["k"] == "canon" else "(arbitrary string #%d)" % i
        chk.violation({"name": name, "k": e["k"]},
                      "lookup of %s disagrees with the PSL algorithm over the shipped list / structural clauses: %s" % (name, json.dumps(e)[:300]),
                      {"kind": "psl", "event": e})
    if thorough:
        # exhaustive: every label of the list under every parent of the list (5.8 M names), in 24 parts
        parts = 24
        cross_names = 0
        for k in range(parts):
            ctrace = os.path.join(w, "cross.ndjson")
            cs = vlib.harness(["psl", "cross", "--out", ctrace, "--part", k, "--of", parts], timeout=3600)
            cres = batch(chk, ctrace, rules, "cross %d/%d" % (k, parts))
            if cres["events"] != cs["events"]:
                raise vlib.ToolError("cross walk: event count mismatch %s vs %s" % (cs, cres["events"]))
            cross_names += cs["names"]
            if cres["viol"]:
                cev = vlib.read_ndjson(ctrace)
                for i in cres["viol"][:3]:
                    e = cev[i - 1]
                    chk.violation({"name": ".".join(e["d"]), "k": "cross"},
                                  "lookup of %s disagrees with the PSL algorithm over the shipped list: %s" % (".".join(e["d"]), json.dumps(e)[:300]),
                                  {"kind": "psl", "event": e})
            os.remove(ctrace)
        chk.cov["cross_walk"] = {"parents": cs["parents"], "labels": cs["labels"], "names": cross_names}
        chk.cov["exhaustive_cross_walk"] = True
    if res["drift"]:
        chk.note("model-drift: %d lookups return an error kind other than the coded one (first: %s)" % (
            len(res["drift"]), json.dumps(events[res["drift"][0] - 1])[:200]))
    chk.cov["evaluations"] = res["events"] + (chk.cov.get("cross_walk", {}).get("names", 0))
    chk.cov["distinct_nontrivial"] = len(names)
    chk.cov["rules"] = {"normal": res["normal"], "wildcard": res["wild"], "exception": res["exc"]}
    chk.cov["canonical_names"] = s["canonical"]
    chk.cov["arbitrary_strings"] = s["arbitrary"]
    chk.cov["traces_validated_against_impl"] = 1
    chk.cov["states"] = 2
    chk.cov["transitions"] = 1
    chk.cov["rule"] = ("every rule of the shipped .dat yields its own name, 2 (quick) / 3 (thorough) extensions by extra labels "
                       "(synthetic or drawn from labels occurring in the list), a sibling, and in the thorough tier the name with the leading "
                       "label removed and further extensions; distinct_nontrivial = distinct canonical names, each compared with "
                       "SuffixLen/ETld1Len over the rule sets; arbitrary strings get the structural clauses only")
    chk.cov["exhaustive"] = False
    chk.cov["exhaustive_note"] = "exhaustive over the rule set; label contents are representatives"
    for e in (events[7], events[len(events) // 3], events[-3]):
        chk.sample(e)
    chk.assumptions += ["the .dat parser and idna::domain_to_ascii (rule canonicalisation) in the harness are trusted",
                        "mixed-case and raw-Unicode inputs get the structural clauses only (the crate documents punycode input)",
                        "TLC evaluates the oracle in one batch state (one TLC state, not a state-space search)"]


def replay(chk, path):
    rp = json.load(open(path))["replay"]
    e = rp["event"]
    if e["k"] != "canon":
        raise vlib.ToolError("only canonical-name events can be replayed by name")
    name = ".".join(e["d"])
    p = vlib.sh([vlib.BIN, "psl", "one", "--name", name])
    trace = os.path.join(chk.work, "one.ndjson")
    rules = os.path.join(chk.work, "rules.ndjson")
    open(trace, "w").write(p.stdout.strip().splitlines()[-1] + "\n")
    vlib.harness(["psl", "rules", "--out", rules])
    res = batch(chk, trace, rules, "replay")
    ev = vlib.read_ndjson(trace)[0]
    if res["viol"]:
        chk.violation({"name": name, "k": "canon"}, "lookup of %s disagrees: %s" % (name, json.dumps(ev)), rp)
    chk.cov["evaluations"] = 1
    chk.cov["distinct_nontrivial"] = 2
