"""C04 - no credential is created or used without user consent; flags are truthful.

The finite product op x (rk, up, uv) x verification capability x presence capability x user-validation outcome
(4 answers + 2 errors) x pinAuth x store content is enumerated COMPLETELY by TLC on spec/Ceremony.tla
(CerMC_C04.cfg), every behaviour is replayed on the real Authenticator, and the recorded events are validated
against the specification with the C04 invariants of spec/CerProps.tla evaluated after every event.
Runs that differ only in "matching credential present" are adjacent, so non-interference is judged on the code.
"""
from checks import cerlib

LEVEL = "model_checking"
PREFIXES = ["C04.", "Any.Crash"]


def run(chk):
    cerlib.run_config(chk, "C04", PREFIXES)
    cerlib.run_config(chk, "C04client", PREFIXES)
    # the U2F API: every control byte with every collected presence value (the flags answered are the ones collected)
    cerlib.run_config(chk, "C04u2f", PREFIXES)
    cerlib.random_histories(chk, PREFIXES, quick_n=150)
    # the store changing while a consent prompt is pending (another ceremony registers / asserts on the shared store):
    # every interleaving, both lock wrappers, stores that list oldest first and newest first
    from checks import c19
    for lock in ("mutex", "rwlock"):
        c19.pairs(chk, "ConcMC_c04_%s.cfg" % lock, "c04-pairs-" + lock, ("C04.",))
    cerlib.finish_cov(chk,
                      "every element of the C04 product (2304 authenticator-level runs; plus the client mapping userVerification -> uv, up = true) "
                      "is one behaviour; non-trivial = the run reaches a prompt or a store call",
                      True, "the product named in the property's quantifier is enumerated completely at CTAP2 level")


def replay(chk, path):
    import json
    rp = json.load(open(path))["replay"]
    if rp.get("kind") == "conc":
        from checks import c19
        c19.validate(chk, [rp["behaviour"]], "replay", ("C04.",))
        chk.cov["distinct_nontrivial"] = max(2, chk.cov["distinct_nontrivial"])
    else:
        cerlib.replay_file(chk, path, PREFIXES)
