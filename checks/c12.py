"""C12 - authenticator data binary encoding follows the WebAuthn layout and round-trips.

spec/AuthData.tla: the layout as segment lengths and flag rules; the encoding case space (RP ID class x counter
{none,0,1,2^32-1} x UP/UV subsets x attested data with id lengths {0,1,16,64,255,256,1023,65535} x extension output
shape) enumerated by TLC; the decoding rules (every strict prefix rejected, 37-byte inputs accepted iff no reserved bit
and no section flag, ids of 65536 bytes refused at construction).  `pkverif authdata` builds each value with the public
constructor and setters, encodes with to_vec, walks the bytes with the harness's OWN decoder, decodes with from_slice,
and runs truncations (all prefixes), single-byte corruptions and all 256 flag bytes; TLC judges every observation.
"""
import json
import os

from checks import batchlib
from lib import vlib

LEVEL = "exploration"


def run(chk):
    w = chk.work
    cases = batchlib.cases_of(chk, "AuthData")
    cpath = os.path.join(w, "adcases.json")
    json.dump(cases, open(cpath, "w"))
    tpath = os.path.join(w, "authdata.ndjson")
    kinds = {}
    for rep in range(4 if chk.tier == "thorough" else 1):
        vlib.harness(["authdata", "--cases", cpath, "--out", tpath, "--seed", chk.seed + rep])
        res = batchlib.judge(chk, "AuthData", tpath)
        ev = vlib.read_ndjson(tpath)
        for e in ev:
            kinds[e["kind"]] = kinds.get(e["kind"], 0) + 1
        seen = set()
        for i in res["viol"]:
            e = ev[i - 1]
            key = (e["kind"], json.dumps(e["case"]) if e["kind"] == "enc" else (e["byte"], e["cut"] == e["total"], e["res"]))
            if key in seen:
                continue
            seen.add(key)
            chk.violation({"inv": "C12." + e["kind"], "case": e["case"], "byte": e["byte"], "res": e["res"]},
                          "authenticator data %s case violates the layout / decoding rules: %s" % (e["kind"], json.dumps(e)[:600]),
                          {"kind": "authdata", "event": e})
        chk.cov["evaluations"] += res["events"]
    chk.cov["distinct_nontrivial"] += len(cases) + 256
    chk.cov["by_kind"] = kinds
    chk.cov["rule"] = ("encoding: one case per (RP ID class, counter, UP/UV subset, attested data + id length, extension shape) from TLC; "
                       "decoding: every prefix of every short encoding (sampled for long ones), 3 bit patterns at 18 positions per encoding, all 256 flag bytes, ids of 0/65535/65536/70000 bytes")
    chk.cov["exhaustive"] = False
    chk.sample(ev[3])
    chk.sample([e for e in ev if e["kind"] == "trunc"][5])
    chk.assumptions += ["the harness's own authenticator-data decoder and ciborium (generic CBOR reader) are trusted",
                        "keys are fresh P-256 public keys; extension outputs are the two shapes the library can produce"]


def replay(chk, path):
    run(chk)
