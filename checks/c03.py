"""C03 - authentication returns a signature that verifies and is bound to the ceremony.

Histories: two registrations (RPs r1/r2, users, discoverable or not) followed by an assertion over allow lists
(absent, empty, subset, unknown ids, ids of the other RP), both RPs, verification required or not, on stores with and
without a foreign credential (CerMC_C03.cfg); client level in CerMC_C03client.cfg.  The relying-party role verifies
the ECDSA signature over authenticatorData || clientDataHash under the public key it recorded at registration.
"""
from checks import cerlib

LEVEL = "model_checking"
PREFIXES = ["C03.", "C01.", "Any.Crash"]


def run(chk):
    cerlib.run_config(chk, "C03", PREFIXES)
    # assertions with credentials made under another authenticator configuration (what an assertion may change in the
    # stored record is the same whatever the configuration: the counter of the credential it used)
    cerlib.run_config(chk, "Rebuild", PREFIXES)
    cerlib.run_config(chk, "C03client" if chk.tier == "thorough" else "C03clientQ", PREFIXES)
    cerlib.random_histories(chk, PREFIXES, quick_n=150)
    cerlib.finish_cov(chk, "one behaviour per (registration history, request RP, allow list, list given or not, verification requirement)",
                      False, "bounded histories, abstract cryptography; exhaustive within the bound")


def replay(chk, path):
    cerlib.replay_file(chk, path, PREFIXES)
