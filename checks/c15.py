"""C15 - decoders of untrusted input never crash or allocate out of proportion.

spec/Decoders.tla: the case space decoder (22 public decoders: CTAP2 CBOR requests/responses, COSE keys into the
public-key converter, Bytes from CBOR / JSON / strings, authenticator data, WebAuthn JSON options and credentials,
client data, U2F request frames and payloads, CTAPHID packet sequences, certificate fingerprints, domain names and RP
IDs) x mutation of a valid encoding (truncate, extend, bit flips, byte set, empty, random, repetition, deep nesting to
100 000 levels, length-field rewrites declaring +1 / 2^16 / 2^31 / 2^32 / 2^40 / 2^63 / 2^64-1 at any CBOR item header or
framing length field, short / over-long / reordered HID packets, 300-packet sequences, orphans), and the property as a
TLA+ predicate: outcome in {value, error}, largest single allocation and peak memory bounded by a constant plus a
multiple of the input size, CPU time bounded.
`pkverif dec` concretises every case several times and runs each in an isolated child process (address-space limit,
per-case alarm, counting global allocator); a dead child is a `crash` / `timeout` observation.  TLC judges every
observation.  The HID receiver's outcomes on malformed packets are additionally part of spec/Hid.tla (layer B).
"""
import collections
import json
import os

from checks import batchlib
from lib import vlib

LEVEL = "exploration"


def run(chk):
    w = chk.work
    thorough = chk.tier == "thorough"
    cases = batchlib.cases_of(chk, "Decoders")
    cpath = os.path.join(w, "deccases.json")
    json.dump(cases, open(cpath, "w"))
    ipath = os.path.join(w, "dec.inputs.ndjson")
    tpath = os.path.join(w, "dec.trace.ndjson")
    total = 0
    by = collections.Counter()
    for rep in range(4 if thorough else 1):
        g = vlib.harness(["dec", "gen", "--cases", cpath, "--out", ipath, "--seed", chk.seed + 1000 * rep, "--reps", 150 if thorough else 40])
        s = vlib.harness(["dec", "run", "--in", ipath, "--out", tpath], timeout=3600)
        if s["events"] != g["inputs"]:
            raise vlib.ToolError("decoder run lost inputs: %s vs %s" % (s, g))
        res = batchlib.judge(chk, "Decoders", tpath)
        ev = vlib.read_ndjson(tpath)
        inputs = None
        seen = set()
        for e in ev:
            by[e["outcome"]] += 1
        for i in res["viol"]:
            e = ev[i - 1]
            cls = e["outcome"] if e["outcome"] in ("crash", "timeout") else ("over-allocation" if e["maxalloc"] > 4194304 + 256 * e["len"] or e["peak"] > 4 * (4194304 + 256 * e["len"]) else "slow")
            key = (e["dec"], e["mut"], e["arg"], cls)
            if key in seen:
                continue
            seen.add(key)
            if inputs is None:
                inputs = {x["id"]: x for x in vlib.read_ndjson(ipath)}
            chk.violation({"inv": "C15.ValueOrError", "decoder": e["dec"], "input_class": e["mut"] + ":" + e["arg"], "failure": cls},
                          "decoder %s on a %s(%s) input of %d bytes: %s %s (largest allocation %d, peak %d, cpu %d ms)" % (
                              e["dec"], e["mut"], e["arg"], e["len"], e["outcome"], e["what"], e["maxalloc"], e["peak"], e["cpums"]),
                          {"kind": "dec", "input": inputs[e["id"]], "event": e})
        total += res["events"]
        chk.cov["child_deaths"] = chk.cov.get("child_deaths", 0) + s["child_deaths"]
    chk.cov["evaluations"] += total
    chk.cov["distinct_nontrivial"] += len(cases)
    chk.cov["outcomes"] = dict(by)
    chk.cov["decoder_cases"] = len(cases)
    chk.sample(ev[len(ev) // 2])
    chk.sample(ev[-5])
    chk.cov["rule"] = ("one case per (decoder, mutation, argument) of Decoders!Cases, each concretised 40 (quick) / 600 (thorough) times with fresh random choices of position and content; "
                       "distinct_nontrivial = number of abstract cases")
    chk.cov["exhaustive"] = False
    chk.cov["exhaustive_note"] = "exhaustive only over the enumerated decoder x mutation x declared-length classes; arbitrary bytes are sampled"
    chk.assumptions += ["absence of crashes on arbitrary bytes is sampled, not proved",
                        "memory is what the global allocator sees (a counting wrapper around the system allocator) in the isolated child",
                        "ciborium and serde_json themselves are part of what is exercised (the property is about the library's public decoders as shipped)"]


def replay(chk, path):
    rp = json.load(open(path))["replay"]
    ipath = os.path.join(chk.work, "one.inputs.ndjson")
    tpath = os.path.join(chk.work, "one.trace.ndjson")
    vlib.write_ndjson(ipath, [rp["input"]])
    vlib.harness(["dec", "run", "--in", ipath, "--out", tpath])
    res = batchlib.judge(chk, "Decoders", tpath)
    e = vlib.read_ndjson(tpath)[0]
    if res["viol"]:
        chk.violation({"inv": "C15.ValueOrError", "decoder": e["dec"], "input_class": e["mut"] + ":" + e["arg"], "failure": e["outcome"]},
                      "decoder %s: %s %s" % (e["dec"], e["outcome"], e["what"]), rp)
    chk.cov["evaluations"] = 1
    chk.cov["distinct_nontrivial"] = 2
