"""C01 - RP ID is bound to the origin at a label boundary and is a registrable domain.

Spec: spec/RpId.tla (layer A `Admissible`/`Sound`, layer B `Coded`, the abstract case space `Cases`),
      spec/Psl.tla (public-suffix algorithm over the shipped list / the custom provider's tiny list).
Binding: TLC enumerates RpId!Cases; `pkverif rpid drive` concretises every abstract case for rules of the shipped
      list and, for EVERY rule, the relations the property names; TLC judges every observation (RpIdBatch.tla).
The end-to-end clause (the effective RP ID is what the authenticator and store receive; a rejected pair
never reaches the authenticator) is checked on the client ceremonies (see checks/ceremony.py, invariant C01.*).
"""
import collections
import json
import os

from lib import vlib

LEVEL = "model_checking"


def cases(chk):
    r = vlib.tlc("RpIdCases.tla", "RpIdCases.cfg", chk.work, workers=1, timeout=600)
    vlib.tlc_must_complete(r, "RpIdCases")
    c = r.prints("CASES")
    if len(c) != 1 or len(c[0]) < 1000:
        raise vlib.ToolError("case enumeration failed")
    return c[0]


def batch(chk, trace, rules):
    r = vlib.tlc("RpIdBatch.tla", "RpIdBatch.cfg", chk.work, env={"TRACE": trace, "RULES": rules}, workers=1,
                 timeout=3600, xmx="8g")
    vlib.tlc_must_complete(r, "RpIdBatch")
    res = r.prints("RESULT")
    if len(res) != 1:
        raise vlib.ToolError("RpIdBatch printed no result:\n" + r.out[-2000:])
    return res[0]


def sig_of(e):
    c = e["case"]
    idn = any(l.startswith("xn--") for l in e["host"] + e["rp"])
    return {"kind": c["kind"], "host": c["host"], "rp": c["rp"], "flag": c["flag"], "provider": c["provider"],
            "idn": idn, "res": e["res"]}


def run(chk):
    thorough = chk.tier == "thorough"
    w = chk.work
    cs = cases(chk)
    cpath = os.path.join(w, "cases.json")
    json.dump(cs, open(cpath, "w"))
    trace = os.path.join(w, "rpid.ndjson")
    rules = os.path.join(w, "rules.ndjson")
    vlib.harness(["psl", "rules", "--out", rules])
    total = 0
    seeds = [chk.seed] if not thorough else [chk.seed + k for k in range(4)]
    accepted = 0
    nontrivial = set()
    for sd in seeds:
        s = vlib.harness(["rpid", "drive", "--cases", cpath, "--out", trace, "--seed", sd,
                          "--per-case", 6 if thorough else 1])
        res = batch(chk, trace, rules)
        if res["events"] != s["events"]:
            raise vlib.ToolError("event count mismatch")
        total += res["events"]
        accepted += res["accepted"]
        events = vlib.read_ndjson(trace)
        for e in events:
            # non-trivial: the pair passes the character-level suffix test, or the host itself is the candidate
            if e["charsuffix"]:
                nontrivial.add((e["origin"], e["rpstr"], e["flag"], e["provider"]))
        per_sig = collections.Counter()
        for i in res["viol"]:
            e = events[i - 1]
            sg = sig_of(e)
            key = json.dumps(sg, sort_keys=True)
            per_sig[key] += 1
            if per_sig[key] > 1:
                continue
            chk.violation(sg, "assert_domain(%s, %s) [localhost flag %s, %s provider] -> %s, which the property forbids "
                          "(effective RP ID not a label-aligned registrable suffix of an https DNS host)" % (
                              e["origin"], e["rpstr"], e["flag"], e["provider"], e["res"]),
                          {"kind": "rpid", "event": e})
        chk.cov.setdefault("violating_events", 0)
        chk.cov["violating_events"] += len(res["viol"])
        if res["drift"]:
            d = collections.Counter(json.dumps(sig_of(events[i - 1]), sort_keys=True) for i in res["drift"])
            chk.note("model-drift: %d observation(s) differ from RpId!Coded (layer B) without violating the property; most frequent: %s" % (
                len(res["drift"]), d.most_common(1)[0]))
        for e in (events[11], events[len(events) // 2], events[-30]):
            chk.sample({k: e[k] for k in ("origin", "rpstr", "flag", "provider", "res", "out")}, cap=6)
        chk.cov["traces_validated_against_impl"] += 1
    chk.cov["evaluations"] = total
    chk.cov["accepted_pairs"] = accepted
    chk.cov["abstract_cases"] = len(cs)
    chk.cov["distinct_nontrivial"] = len(nontrivial)
    chk.cov["states"] = 2
    chk.cov["transitions"] = 1
    chk.cov["rule"] = ("abstract cases = RpId!Cases enumerated by TLC (origin kind x scheme x port x host shape x RP-ID relation x "
                       "localhost flag x provider), each concretised for random rules (one IDN) of the shipped list / the tiny list; plus "
                       "for EVERY rule of the list: suffix-as-RP-ID, registrable RP ID, 'evil'+registrable host (character suffix), "
                       "suffix-as-host, upper-case suffix as Android host, Android reg/suffix, is_valid_rp_id on suffix and registrable. "
                       "distinct_nontrivial = distinct (origin, RP ID, flag, provider) that pass the character-level suffix test")
    chk.cov["exhaustive"] = False
    chk.cov["exhaustive_note"] = "exhaustive over the abstract product and over all list rules; strings inside a label are representatives"
    chk.assumptions += ["idna::domain_to_ascii is trusted to compute the canonical (lower-case punycode) form of the effective RP ID",
                        "url::Url is trusted to report the host kind (domain / IP literal)",
                        "the .dat parser in the harness is trusted"]


def replay(chk, path):
    rp = json.load(open(path))["replay"]
    e = rp["event"]
    args = ["rpid", "one", "--kind", e["kind"] if e["kind"] != "valid" else "web", "--scheme", e["origin"].split(":")[0] if e["kind"] == "web" else "https",
            "--host", ".".join(e["host"]), "--provider", e["provider"]]
    if e["rpgiven"]:
        args += ["--rp", e["rpstr"]]
    if e["flag"]:
        args += ["--flag", "1"]
    p = vlib.sh([vlib.BIN] + args)
    trace = os.path.join(chk.work, "one.ndjson")
    rules = os.path.join(chk.work, "rules.ndjson")
    open(trace, "w").write(p.stdout.strip().splitlines()[-1] + "\n")
    vlib.harness(["psl", "rules", "--out", rules])
    res = batch(chk, trace, rules)
    ev = vlib.read_ndjson(trace)[0]
    if res["viol"]:
        chk.violation(sig_of(ev), "assert_domain(%s, %s) -> %s" % (ev["origin"], ev["rpstr"], ev["res"]), rp)
    chk.cov["evaluations"] = 1
    chk.cov["distinct_nontrivial"] = 2
