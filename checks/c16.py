"""C16 - CTAPHID fragmentation and reassembly preserve every message, per channel.

Model:  spec/Hid.tla (sender + receiver as coded), spec/HidMC.tla (interleaving model, layer-A invariants).
Binding: TLC exports every interleaving (HidGen_*.cfg) -> harness replays them through the real
         Message::send / ChannelHandler -> spec/HidTrace.tla validates the recorded events (layer A
         invariants at every event, layer B explanation of every receiver step).
"""
import json
import os
import random

from lib import vlib

LEVEL = "model_checking"
INVS = "C16."


def export_behaviours(chk, cfg, expect_min):
    r = vlib.tlc("HidMC.tla", cfg, chk.work, workers=4, timeout=1800)
    chk.model_run(cfg, r)
    beh = r.prints("REPLAY")
    if len(beh) < expect_min:
        raise vlib.ToolError("behaviour export %s produced %d behaviours" % (cfg, len(beh)))
    return beh


def validate(chk, trace, label, inputs=None):
    """Run HidTrace over a recorded trace; classify violations; return result record."""
    r = vlib.tlc("HidTrace.tla", "HidTrace.cfg", chk.work, env={"TRACE": trace}, workers=1,
                 timeout=3600, depth_first=True)
    vlib.tlc_must_complete(r, "HidTrace on " + label)
    res = r.prints("RESULT")
    if len(res) != 1 or "UNCONSUMED" in r.out:
        raise vlib.ToolError("HidTrace did not consume the trace %s:\n%s" % (label, r.out[-2000:]))
    res = res[0]
    events = None
    per_inv = {}
    for v in sorted(res["viol"], key=lambda v: v["l"]):
        if not v["inv"].startswith(INVS):
            continue
        per_inv[v["inv"]] = per_inv.get(v["inv"], 0) + 1
        if per_inv[v["inv"]] > 2:
            continue
        if events is None:
            events = vlib.read_ndjson(trace)
        run = run_events(events, v["l"])
        chk.violation({"inv": v["inv"], "label": label},
                      "%s false at event %d of %s (run %d): %s" % (v["inv"], v["l"], label, v["run"], json.dumps(events[v["l"] - 1])[:300]),
                      {"kind": "hid-trace", "events": run})
    if res["drift"]:
        chk.note("model-drift: %d event(s) of %s not explained by Hid!Recv/SenderAccepts (first: %s)" % (
            len(res["drift"]), label, json.dumps(sorted(res["drift"], key=lambda d: d["l"])[0])))
    chk.cov.setdefault("invariant_failures", {}).update({k: per_inv[k] + chk.cov.get("invariant_failures", {}).get(k, 0) for k in per_inv})
    chk.cov["traces_validated_against_impl"] += 1
    chk.cov["evaluations"] += res["events"]
    return res


def run_events(events, l):
    """The events of the run that contains 1-based event index l."""
    i = l - 1
    a = i
    while a > 0 and events[a]["ev"] != "Reset":
        a -= 1
    b = i + 1
    while b < len(events) and events[b]["ev"] != "Reset":
        b += 1
    return events[a:b]


def run(chk):
    thorough = chk.tier == "thorough"
    rnd = random.Random(chk.seed)
    w = chk.work

    # 1. model checking of the interleaving model with the layer-A invariants
    cfgs = ["HidMC_small.cfg"] + (["HidMC_three.cfg", "HidMC_two.cfg"] if thorough else [])
    for cfg in cfgs:
        r = vlib.tlc("HidMC.tla", cfg, w, workers=8, coverage=True, timeout=3600, xmx="8g")
        if r.invariant_violated:
            chk.violation({"inv": "model:" + r.invariant_violated[0]},
                          "the model itself violates %s under %s" % (r.invariant_violated[0], cfg),
                          {"kind": "tlc", "cfg": cfg, "out": r.out[-4000:]})
            continue
        chk.model_run(cfg, r, expect_actions=["FeedInitComplete", "FeedInitPartial", "FeedContExtend",
                                              "FeedContComplete", "FeedOrphan"])

    # 2. spec -> implementation: every interleaving exported by TLC, replayed on the real code
    gens = [("HidGen_quick.cfg", 5000), ("HidGen_stray.cfg", 4000), ("HidGen_abandon.cfg", 4000)]
    if thorough:
        gens += [("HidGen_four.cfg", 100000)]
    nbeh = 0
    for cfg, mn in gens:
        beh = export_behaviours(chk, cfg, mn)
        if cfg == "HidGen_abandon.cfg" and not thorough:
            beh = [b for b in beh if rnd.randrange(4) == 0]      # all of them in the thorough tier
        nbeh += len(beh)
        bpath = os.path.join(w, cfg + ".beh.ndjson")
        tpath = os.path.join(w, cfg + ".trace.ndjson")
        chk.sample({"behaviour_from": cfg, "behaviour": beh[rnd.randrange(len(beh))]})
        # (validated in chunks: one TLC run deserialises its whole trace into memory)
        for k in range(0, len(beh), 20000):
            vlib.write_ndjson(bpath, beh[k:k + 20000])
            s = vlib.harness(["hid", "replay", "--in", bpath, "--out", tpath, "--seed", chk.seed + k, "--vary-fill", "1"])
            validate(chk, tpath, "replay of " + cfg + (" [%d..]" % k if k else ""))
            os.remove(tpath)
    chk.cov["behaviours_replayed"] = nbeh

    # 3. sender layout for payload lengths (every boundary; every length in the thorough tier)
    if thorough:
        lens = None
    else:
        b = set([0, 1, 56, 57, 58, 7607, 7608, 7609, 7610, 7611, 65535, 65536, 70000])
        for k in list(range(1, 8)) + [64, 126, 127, 128]:
            for d in (-1, 0, 1):
                b.add(57 + 59 * k + d)
        b.update(rnd.randrange(0, 7700) for _ in range(200))
        lens = ",".join(str(x) for x in sorted(b))
    tpath = os.path.join(w, "lens.trace.ndjson")
    # every length 0..7700 in the thorough tier, 550 lengths per validated trace
    batches = [lens] if lens else ["%d..%d" % (a, min(a + 549, 7700)) for a in range(0, 7701, 550)] + ["65535,65536,70000"]
    chk.cov["sender_lengths"] = 0
    for i, b in enumerate(batches):
        s = vlib.harness(["hid", "lens", "--lens", b, "--out", tpath, "--seed", chk.seed + i])
        chk.cov["sender_lengths"] += s["lengths"]
        validate(chk, tpath, "sender lengths" + (" " + b if len(batches) > 1 else ""))
        if i == 0:
            ev = vlib.read_ndjson(tpath)
            chk.sample({"sender_event": {k: (v if k != "pk" else v[:2]) for k, v in ev[-3].items()}})
        os.remove(tpath)

    # 4. implementation -> spec: random interleavings of long streams (sampled, as the property says)
    runs = 3000 if thorough else 150
    tpath = os.path.join(w, "random.trace.ndjson")
    chk.cov["random_long_runs"] = runs
    for k in range(0, runs, 300):
        s = vlib.harness(["hid", "random", "--runs", min(300, runs - k), "--out", tpath, "--seed", chk.seed + k])
        validate(chk, tpath, "random long streams" + (" [%d..]" % k if k else ""))
        os.remove(tpath)

    # 5. unbounded payload length (thorough tier): Apalache discharges the inductive invariant of HidInd.tla.
    #    A stall or tool failure is a note, never a verdict; a counterexample is a violation of the model.
    if thorough:
        apa = os.path.join(w, "apalache")
        ok = 0
        for args in (["--inv=IndInv", "--length=0"], ["--init=IndInit", "--inv=IndInv", "--length=1"]):
            p = vlib.sh(["timeout", "900", "apalache-mc", "check"] + args + ["--out-dir=" + apa, "HidInd.tla"], cwd=vlib.SPEC, check=False, timeout=1000)
            out = p.stdout or ""
            if "The outcome is: NoError" in out:
                ok += 1
            elif "The outcome is: Error" in out:
                chk.violation({"inv": "model:HidInd.IndInv"}, "Apalache found the inductive invariant of HidInd.tla violated (%s)" % " ".join(args),
                              {"kind": "apalache", "out": out[-3000:]})
            else:
                chk.note("Apalache did not finish (%s): %s" % (" ".join(args), out[-200:].replace("\n", " ")))
        chk.cov["apalache_obligations_discharged"] = ok

    chk.cov["distinct_nontrivial"] = nbeh + chk.cov["sender_lengths"] + runs
    chk.cov["rule"] = ("distinct = exported interleavings (each a different schedule/plan) + distinct payload lengths + random runs; "
                       "non-trivial = at least one message needs reassembly or a boundary length is hit")
    chk.cov["exhaustive"] = False
    chk.cov["exhaustive_note"] = ("interleavings exhaustive for the bounded streams of the HidMC/HidGen configurations; "
                                  "long streams sampled")
    chk.assumptions += ["payload contents are abstracted to (message, offset) ranges in the model; the harness checks byte equality",
                        "the harness's own packet-header decoder is trusted",
                        "TLC and the CommunityModules Json/IOUtils overrides are trusted"]


def replay(chk, path):
    rp = json.load(open(path))["replay"]
    if rp.get("kind") != "hid-trace":
        raise vlib.ToolError("cannot replay " + str(rp.get("kind")))
    # re-run the recorded run on the real code: rebuild the schedule from its events
    ev = rp["events"]
    plan = {}
    strays = []
    sched = []
    for e in ev:
        if e["ev"] == "Send":
            plan.setdefault(e["c"], []).append({"id": e["id"], "cmd": 1, "len": e["len"], "cut": e.get("cut", 0)})
        elif e["ev"] == "Feed":
            sched.append(e["c"])
            if e["id"] == 0 and e["c"] not in strays:
                strays.append(e["c"])
    beh = {"plan": {str(c): m for c, m in plan.items()}, "strays": strays, "sched": sched}
    b = os.path.join(chk.work, "b.ndjson")
    t = os.path.join(chk.work, "t.ndjson")
    vlib.write_ndjson(b, [beh])
    vlib.harness(["hid", "replay", "--in", b, "--out", t, "--seed", chk.seed])
    validate(chk, t, "replay")
    chk.cov["distinct_nontrivial"] = 2
