"""C19 - shared-store concurrency never reuses a counter or loses a credential.

Model: spec/Concurrent.tla - N ceremonies (Ceremony!Step) over one store behind a lock wrapper modelled as coded
(acquire / inner call / release per store call, FIFO waiters, shared readers under RwLock, suspension while the guard
is held).  TLC explores EVERY interleaving of two concurrent ceremonies (assert/assert on one credential, on two
credentials, assert/register, register/register) for Mutex and RwLock over the reference store and MemoryStore:
deadlock freedom, registrations present, pairwise distinct counters whose maximum is stored.  Every interleaving is
exported and realised on the real code by a schedule-driven executor (authenticators sharing Arc<Mutex<S>> /
Arc<RwLock<S>>, user validation and inner store suspending); the recorded events are validated against
spec/ConcTrace.tla.  Three concurrent ceremonies: TLC -simulate.
The model reaches the duplicate-counter state in exactly one history shape (both lookups before either update):
known finding F7; the check asserts the shape is still reachable in the model and reports any other violation.
"""
import json
import os

from lib import vlib

LEVEL = "model_checking"


def plans_of(r):
    return r.prints("REPLAY")


def validate(chk, beh, label, prefixes=("C19.", "Any.Crash")):
    w = chk.work
    bpath = os.path.join(w, label + ".beh.ndjson")
    tpath = os.path.join(w, label + ".trace.ndjson")
    vlib.write_ndjson(bpath, beh)
    vlib.harness(["conc", "replay", "--in", bpath, "--out", tpath, "--seed", chk.seed], timeout=3600)
    r = vlib.tlc("ConcTrace.tla", "ConcTrace.cfg", w, env={"TRACE": tpath}, workers=1, timeout=3600, depth_first=True, xmx="6g")
    vlib.tlc_must_complete(r, "ConcTrace " + label)
    res = r.prints("RESULT")
    if len(res) != 1 or "UNCONSUMED" in r.out:
        raise vlib.ToolError("ConcTrace did not consume " + label + "\n" + r.out[-1500:])
    res = res[0]
    events = vlib.read_ndjson(tpath)
    runs = []
    for e in events:
        if e["ev"] == "Reset":
            runs.append([])
        runs[-1].append(e)
    realised = 0
    for b, run in zip(beh, runs):
        got = [e["cer"] for e in run if e["ev"] in ("Store", "Prompt")]
        last = {}
        for i, c in enumerate(b["order"]):
            last[c] = i
        plan = [c for i, c in enumerate(b["order"]) if last[c] != i]
        realised += got == plan
    chk.cov["interleavings_exported"] = chk.cov.get("interleavings_exported", 0) + len(beh)
    chk.cov["interleavings_realised_on_code"] = chk.cov.get("interleavings_realised_on_code", 0) + realised
    chk.cov["evaluations"] += res["events"]
    chk.cov["traces_validated_against_impl"] += len(runs)
    chk.cov["distinct_nontrivial"] += len({json.dumps([b["cfg"], b["cers"], b["lock"], b["order"]]) for b in beh})
    per = {}
    other = {}
    for v in sorted(res["viol"], key=lambda v: v["l"]):
        if not any(v["inv"].startswith(p) for p in prefixes):
            other[v["inv"]] = other.get(v["inv"], 0) + 1
            continue
        per[v["inv"]] = per.get(v["inv"], 0) + 1
        if per[v["inv"]] > 2:
            continue
        run = next(r_ for r_ in runs if r_[0]["run"] == v["run"])
        b = beh[v["run"]]
        shape = "StaleUpdate" if v["inv"].endswith(".StaleUpdate") else "other"
        chk.violation({"inv": v["inv"], "shape": shape},
                      "%s in %s run %d (%s, %s): order %s; results %s" % (
                          v["inv"], label, v["run"], b["lock"], [c["op"] for c in b["cers"]], b["order"],
                          json.dumps([[e["cer"], e["d"]["ok"], e["d"]["ctr"]] for e in run if e["ev"] == "End"])),
                      {"kind": "conc", "behaviour": b, "events": run})
    chk.cov.setdefault("invariant_failures", {}).update(per)
    if other:
        chk.note("invariants of other properties false in %s (reported by their own checks): %s" % (label, other))
    if res["drift"]:
        d = sorted(res["drift"], key=lambda d: d["l"])[0]
        chk.note("model-drift: %d event(s) of %s not explained by layer B (first: %s)" % (len(res["drift"]), label, json.dumps(events[d["l"] - 1])[:300]))
    chk.sample({"from": label, "behaviour": {k: beh[len(beh) // 3][k] for k in ("lock", "order")},
                "ceremonies": [c["op"] for c in beh[len(beh) // 3]["cers"]]}, cap=4)
    os.remove(tpath)


def pairs(chk, cfgname, label, prefixes, known_check=True):
    """every interleaving of a pairs configuration: model-check, export, realise on the code, validate"""
    cov = chk.tier == "thorough"
    r = vlib.tlc("ConcMC.tla", cfgname, chk.work, workers=8, coverage=cov, timeout=3600, xmx="8g")
    if r.invariant_violated:
        chk.violation({"inv": "model:" + r.invariant_violated[0], "cfg": cfgname},
                      "the model (Concurrent.tla, %s) violates %s: %s" % (
                          cfgname, r.invariant_violated[0], [ln for ln in r.out.splitlines() if ln.startswith('<<"VIOLATED"')][:1]),
                      {"kind": "tlc", "cfg": cfgname, "out": r.out[-5000:]})
        return False
    chk.model_run(cfgname, r, expect_actions=["AskAny", "DoAny", "RelAny", "LocalAny", "Finish"] if cov else ())
    validate(chk, plans_of(r), label, prefixes)
    return True


def run(chk):
    thorough = chk.tier == "thorough"
    w = chk.work
    for lock in ("mutex", "rwlock"):
        cfg = "ConcMC_pairs_%s.cfg" % lock
        cov = thorough
        r = vlib.tlc("ConcMC.tla", cfg, w, workers=8, coverage=cov, timeout=3600, xmx="8g")
        if r.invariant_violated:
            chk.violation({"inv": "model:" + r.invariant_violated[0], "lock": lock},
                          "the model (Concurrent.tla, %s) violates %s beyond the known race shape: %s" % (
                              cfg, r.invariant_violated[0], [ln for ln in r.out.splitlines() if ln.startswith('<<"VIOLATED"')][:1]),
                          {"kind": "tlc", "cfg": cfg, "out": r.out[-5000:]})
            continue
        chk.model_run(cfg, r, expect_actions=["AskAny", "DoAny", "RelAny", "LocalAny", "Finish"] if cov else ())
        validate(chk, plans_of(r), "pairs-" + lock)
        # the known finding must still be what the model says: without the exemption the invariant fails
        r2 = vlib.tlc("ConcMC.tla", "ConcMC_pairs_%s_nok.cfg" % lock, w, workers=4, timeout=1800)
        if "PropertiesHold" not in r2.invariant_violated:
            chk.note("the known race (F7) is no longer reachable in the model for %s - the exemption is stale" % lock)
        else:
            chk.cov.setdefault("known_shape_reachable_in_model", []).append(lock)
    # "no ceremony deadlocks" as a liveness property: under weak fairness every schedule of the pairs ends (FairSpec,
    # PROPERTY Termination; no state constraint, no VIEW)
    for lock in ("mutex", "rwlock"):
        cfg = "ConcMC_live_%s.cfg" % lock
        r = vlib.tlc("ConcMC.tla", cfg, w, workers=6, timeout=1800, xmx="8g")
        if r.temporal_violated or r.invariant_violated:
            chk.violation({"inv": "model:Termination", "lock": lock},
                          "the model (Concurrent.tla, %s) has a fair schedule that never finishes" % cfg,
                          {"kind": "tlc", "cfg": cfg, "out": r.out[-5000:]})
            continue
        vlib.tlc_must_complete(r, cfg)
        chk.cov["model_runs"].append({"cfg": cfg, "distinct": r.distinct, "generated": r.generated, "depth": r.depth,
                                      "temporal": "<>(all ceremonies finished) under WF_vars(Next): holds"})
    # ceremonies that fail after their counter update was accepted, or at a store call that fails
    for lock in ("mutex", "rwlock"):
        pairs(chk, "ConcMC_fail_%s.cfg" % lock, "failpairs-" + lock, ("C19.", "Any.Crash"))
        # counters next to the 32-bit maximum
        pairs(chk, "ConcMC_high_%s.cfg" % lock, "highpairs-" + lock, ("C19.", "Any.Crash"))
    # three concurrent ceremonies: sampled schedules
    n = 20000 if thorough else 1500
    for lock in ("mutex", "rwlock"):
        cfg = "ConcMC_triples_%s.cfg" % lock
        r = vlib.tlc("ConcMC.tla", cfg, w, workers=1, timeout=3600, simulate="num=%d" % n, seed=chk.seed, xmx="6g")
        if r.invariant_violated:
            chk.violation({"inv": "model:" + r.invariant_violated[0], "lock": lock},
                          "the model (triples, %s) violates %s" % (lock, r.invariant_violated[0]), {"kind": "tlc", "out": r.out[-4000:]})
            continue
        beh = plans_of(r)
        if not beh:
            raise vlib.ToolError("simulation exported nothing for " + cfg + "\n" + r.out[-1500:])
        seen = set()
        uniq = []
        for b in beh:
            k = json.dumps(b, sort_keys=True)
            if k not in seen:
                seen.add(k)
                uniq.append(b)
        chk.cov["model_runs"].append({"cfg": cfg, "simulated_behaviours": len(beh), "distinct": len(uniq)})
        validate(chk, uniq, "triples-" + lock)
    chk.cov["rule"] = ("pairs: every interleaving (event order) of two concurrent ceremonies x lock kind x store kind, each a distinct behaviour; "
                       "triples: distinct schedules from TLC -simulate; an interleaving counts as realised when the code's recorded order of store calls and prompts equals the exported one")
    chk.cov["exhaustive"] = False
    chk.cov["exhaustive_note"] = "schedules exhaustive for two concurrent ceremonies, sampled for three"
    chk.assumptions += ["the hand-rolled executor polls futures exactly as scheduled; tokio's locks are polled outside a runtime",
                        "inner stores: reference store and MemoryStore (the single-slot Option<Passkey> replaces its slot by design)",
                        "TLC and the CommunityModules Json/IOUtils overrides are trusted"]


def replay(chk, path):
    rp = json.load(open(path))["replay"]
    if rp.get("kind") != "conc":
        raise vlib.ToolError("cannot replay " + str(rp.get("kind")))
    validate(chk, [rp["behaviour"]], "replay")
    chk.cov["distinct_nontrivial"] = max(2, chk.cov["distinct_nontrivial"])
