"""C13 - CTAP2 messages use the specified integer keys and round-trip through CBOR; status bytes.

spec/CtapCodec.tla holds, per message, the table member -> (integer key, required / optional / defaulted) taken from
the CTAP specification, the case space (EVERY subset of optional members; injected unknown integer keys, an unknown text
key, every member duplicated, every required member missing, options absent) and the partition of the 256 status bytes.
`pkverif ctapcodec` builds each case with the real types, serialises with ciborium, re-reads the bytes as a generic CBOR
value (top-level keys in order, nulls), feeds the (possibly manipulated) map back to the typed deserialiser and
re-serialises; TLC judges every observation.  The client's status mapping is additionally exercised end to end: a store
fault with each status byte 1..255 during Client::authenticate / register (CerMC_C13status.cfg).
"""
import json
import os

from checks import batchlib, cerlib
from lib import vlib

LEVEL = "model_checking"
PREFIXES = ["C13.", "Any.Crash"]


def run(chk):
    w = chk.work
    cases = batchlib.cases_of(chk, "CtapCodec")
    cpath = os.path.join(w, "ctapcases.json")
    json.dump(cases, open(cpath, "w"))
    tpath = os.path.join(w, "ctapcodec.ndjson")
    total = 0
    for rep in range(5 if chk.tier == "thorough" else 1):
        s = vlib.harness(["ctapcodec", "--cases", cpath, "--out", tpath, "--seed", chk.seed + rep])
        res = batchlib.judge(chk, "CtapCodec", tpath)
        ev = vlib.read_ndjson(tpath)
        seen = set()
        for i in res["viol"]:
            e = ev[i - 1]
            key = (e["kind"], e["msg"], e["variant"], e["arg"], e["byte"])
            if key in seen:
                continue
            seen.add(key)
            if e["kind"] == "status":
                text = "status byte 0x%02x -> class %s, back to 0x%02x, client reports %s(%d)" % (e["byte"], e["class"], e["back"], e["werr"], e["wcode"])
            else:
                text = "%s with optional members %s, case %s %s: keys %s, text keys %d, nulls %s, deserialise %s, same value after round trip %s, options (up=%s rk=%s uv=%s)" % (
                    e["msg"], e["present"], e["variant"], e["arg"], e["keys"], e["textkeys"], e["nulls"], e["de"], e["rt"], e["up"], e["rk"], e["uv"])
            chk.violation({"inv": "C13.Codec", "kind": e["kind"], "msg": e["msg"], "variant": e["variant"], "arg": e["arg"], "byte": e["byte"]},
                          text, {"kind": "ctapcodec", "event": e})
        if res.get("drift"):
            chk.note("model-drift: %d status byte(s) fall in another of the library's classes than CtapCodec.tla lists (first: 0x%02x -> %s)" % (
                len(res["drift"]), ev[res["drift"][0] - 1]["byte"], ev[res["drift"][0] - 1]["class"]))
        total += res["events"]
    chk.cov["evaluations"] += total
    chk.cov["distinct_nontrivial"] += len(cases) + 256
    chk.cov["codec_cases"] = len(cases)
    chk.sample({"codec_case": ev[len(ev) // 3]})
    chk.sample({"status_event": ev[-200]})
    cerlib.run_config(chk, "C13status", PREFIXES)
    cerlib.finish_cov(chk, "every subset of optional members of each of the 6 messages, plus injected unknown / duplicated / missing members; all 256 status bytes; "
                           "plus one client ceremony per status byte 1..255 injected as a store fault",
                      True, "exhaustive over presence subsets, the listed injections and all 256 status bytes; member VALUES are representatives")


def replay(chk, path):
    rp = json.load(open(path))["replay"]
    if rp.get("kind") == "cer":
        cerlib.replay_file(chk, path, PREFIXES)
    else:
        run(chk)
