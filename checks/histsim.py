"""Randomised histories (implementation -> specification): long mixed sequences of ceremonies through all APIs with
random configurations, stores, requests, user-validation answers, store faults and cancellation points.  Every recorded
event is explained by layer B or reported as drift, and every layer-A invariant is evaluated after every event."""
import random

NOPRF = {"given": False, "eval": "absent", "byCred": [], "byCredGiven": False}
NOCPRF = {"kind": "absent", "eval": "absent", "byCred": [], "byCredGiven": False, "badlen": False}
DOMS = [("o.r1w", "r1", "r1", "ok"), ("o.r1p", "r1", "r1", "ok"), ("o.and.r1", "absent", "r1", "ok"), ("o.r2", "absent", "r2", "ok"),
        ("o.evil", "r1", "r1", "OriginRpMissmatch"), ("o.http", "r1", "r1", "UnprotectedOrigin"), ("o.r1w", "com", "com", "InvalidRpId"),
        ("o.local", "absent", "localhost", "InsecureLocalhostNotAllowed"), ("o.and.evil", "r1", "r1", "OriginRpMissmatch"),
        ("o.r1", "absent", "r1", "ok"), ("o.and.r1w", "r1", "r1", "ok"), ("o.idn", "absent", "r3", "ok"), ("o.idnu", "r3", "r3", "ok"), ("o.q1", "absent", "rq1", "ok"), ("o.q2", "rq2", "rq2", "ok")]
STATUSES = [1, 2, 21, 40, 46, 39, 127, 242, 224]


def ctr(rnd):
    return rnd.choice([{"hi": -1, "lo": 0}, {"hi": 0, "lo": 0}, {"hi": 0, "lo": 7}, {"hi": 32767, "lo": 65535},
                       {"hi": 65535, "lo": 65534}, {"hi": 65535, "lo": 65535}])


def ids(rnd, pool):
    n = rnd.choice([0, 0, 1, 1, 2, 3])
    return [rnd.choice(pool) for _ in range(n)]


def prf(rnd, pool):
    if rnd.random() < 0.5:
        return dict(NOPRF)
    by = [{"id": rnd.choice(pool), "n": rnd.choice(["one", "two"])} for _ in range(rnd.choice([0, 1, 1, 2]))]
    # a credential may be listed once only (the request is a map)
    seen, uniq = set(), []
    for b in by:
        if b["id"] not in seen:
            seen.add(b["id"])
            uniq.append(b)
    given = rnd.random() < 0.5
    return {"given": True, "eval": rnd.choice(["absent", "one", "two"]), "byCred": uniq if given else [], "byCredGiven": given}


def env(rnd):
    uv = rnd.choice([{"kind": "ok", "pres": True, "verif": True, "err": 0}] * 6 + [{"kind": "asked", "pres": True, "verif": False, "err": 0}] +
                    [{"kind": "ok", "pres": True, "verif": False, "err": 0}, {"kind": "ok", "pres": False, "verif": True, "err": 0},
                     {"kind": "ok", "pres": False, "verif": False, "err": 0}, {"kind": "err", "pres": False, "verif": False, "err": rnd.choice([39, 47, 60])}])
    faults = [rnd.choice(STATUSES) if rnd.random() < 0.06 else 0 for _ in range(3)]
    cancel = rnd.randrange(0, 6) if rnd.random() < 0.08 else -1
    return {"uv": uv, "faults": faults, "cancelAt": cancel}


def base_req(rnd, pool):
    ex = ids(rnd, pool)
    al = ids(rnd, pool)
    return {"rp": rnd.choice(["r1", "r1", "r2"]), "user": rnd.choice(["u1", "u2", "u3"]),
            "algs": [rnd.choice(["ES256", "ES256", "RS256", "EdDSA", "unknown", "u:RS256", "HMAC", "zero"]) for _ in range(rnd.choice([0, 1, 1, 2, 3]))],
            "exclude": ex, "excludeGiven": bool(ex) or rnd.random() < 0.3, "allow": al, "allowGiven": bool(al) or rnd.random() < 0.3,
            "rk": rnd.random() < 0.4, "up": rnd.random() < 0.9, "uv": rnd.random() < 0.5, "pinAuth": rnd.random() < 0.04,
            "hs": rnd.choice(["absent", "absent", "true", "false"]), "prf": dict(NOPRF), "cdh": rnd.choice(["h1"] * 6 + ["h0", "h3", "h20", "h64"]),
            "unkType": rnd.random() < 0.15}


def behaviour(rnd):
    slot = rnd.random() < 0.15
    # (the map store is exercised by the pinned configurations only: with credentials of several RPs its known
    # by-id finding F3b would surface under other properties' names)
    memory = False
    cfg = {"uvCap": rnd.choice(["configured"] * 4 + ["unconfigured", "none"]), "upCap": rnd.random() < 0.9, "counterOn": rnd.random() < 0.6,
           "idLen": rnd.choice([0, 16, 16, 40, 64, 255]), "hmac": rnd.choice(["off", "uvonly", "withoutuv", "withoutuv"]), "mc": rnd.random() < 0.5,
           "storeKind": "slot" if slot else ("memory" if memory else "reference"),
           "disc": "forced" if slot or memory else rnd.choice(["full", "full", "nondisc", "forced"]),
           "emptyAsErr": False if slot or memory else rnd.random() < 0.5,
           "tr": rnd.choice(["default", "default", "empty", "usb"]),
           "order": "oldest" if slot or memory else rnd.choice(["oldest", "newest"]),
           "wrap": "none" if slot or memory else rnd.choice(["none", "none", "mutex", "rwlock", "arcmutex", "arcrwlock"])}
    store = []
    for cid in ["c1", "c2", "c3"][: (rnd.choice([0, 1]) if slot else rnd.choice([0, 1, 2, 3]))]:
        store.append({"id": cid, "rp": rnd.choice(["r1", "r1", "r2"]), "user": rnd.choice(["u1", "u2", "none"]), "ctr": ctr(rnd),
                      "hm": rnd.choice(["none", "uv", "both"])})
    if memory:
        # the map store has no listing order: keep one credential per RP so that id-less lookups are predictable
        seen, one = set(), []
        for c in store:
            if c["rp"] not in seen:
                seen.add(c["rp"])
                one.append(c)
        store = one
    pool = ["c1", "c2", "c3", "x1", "x2"]
    cers = []
    for _ in range(rnd.randrange(1, 13)):
        api = rnd.choice(["ctap2"] * 5 + ["client"] * 4 + ["u2f"] + ["trait"])
        e = env(rnd)
        if not slot and rnd.random() < 0.06:
            # the environment changes: enrolment into user verification, presence support, the store's capability
            if rnd.random() < 0.4:
                # ... or another authenticator object, configured differently, takes over the store
                cers.append({"api": "env", "op": "rebuild", "env": env(random.Random(2)),
                             "req": {"hmac": rnd.choice(["off", "uvonly", "withoutuv"]), "idLen": rnd.choice([16, 32, 64]),
                                     "counterOn": rnd.random() < 0.5}})
                continue
            cers.append({"api": "env", "op": "reconfig", "env": env(random.Random(2)),
                         "req": {"uvCap": rnd.choice(["configured", "configured", "unconfigured", "none"]), "upCap": rnd.random() < 0.9,
                                 "disc": rnd.choice(["full", "nondisc", "forced"])}})
        if api in ("ctap2", "trait"):
            op = rnd.choice(["mc", "ga", "ga", "info"] if api == "ctap2" else ["mc", "ga"])
            r = base_req(rnd, pool)
            r["prf"] = prf(rnd, pool)
            if op == "mc":
                r["prf"]["byCred"], r["prf"]["byCredGiven"] = [], False
            if op == "info":
                r = base_req(random.Random(0), pool)
                e = {"uv": {"kind": "ok", "pres": True, "verif": True, "err": 0}, "faults": [0, 0, 0], "cancelAt": rnd.choice([-1, -1, 0, 1])}
            cers.append({"api": api, "op": op, "req": r, "env": e})
        elif api == "client":
            op = rnd.choice(["mc", "ga"])
            r = base_req(rnd, pool)
            o, rpid, rp, dom = rnd.choice(DOMS[:4] * 3 + DOMS[4:])
            kind = rnd.choice(["absent", "absent", "prf", "hashed", "both"])
            by = []
            given = False
            if op == "ga" and kind != "absent" and rnd.random() < 0.5:
                given = True
                keys = rnd.sample(pool + ["k:empty", "k:bad64"], rnd.choice([0, 1, 2]))
                by = [{"id": k, "n": rnd.choice(["one", "two"])} for k in keys]
            if op == "mc" and kind != "absent" and rnd.random() < 0.15:
                given = True
                by = [{"id": "c1", "n": "one"}]
            cp = {"kind": kind, "eval": rnd.choice(["absent", "one", "two"]) if kind != "absent" else "absent", "byCred": by,
                  "byCredGiven": given, "badlen": kind in ("hashed", "both") and rnd.random() < 0.3}
            r.update({"rp": rp, "origin": o, "rpid": rpid, "dom": dom, "chal": rnd.choice(["c0", "c1", "c32", "c1024"]),
                      "authSel": rnd.random() < 0.7, "residentKey": rnd.choice(["absent", "discouraged", "preferred", "required", "unknown"]),
                      "requireRk": rnd.random() < 0.5, "uvreq": rnd.choice(["required", "preferred", "discouraged"]),
                      "credProps": rnd.choice(["absent", "false", "true"]), "cdmode": rnd.choice(["default", "extra", "extra0", "hash"]),
                      "cprf": cp, "pinAuth": False, "hs": "absent", "up": True,
                      "att": rnd.choice(["absent", "absent", "none", "indirect", "direct", "enterprise"]),
                      "prf": {"given": kind != "absent", "eval": cp["eval"], "byCred": by, "byCredGiven": given}})
            cers.append({"api": "client", "op": op, "req": r, "env": e})
        else:
            op = rnd.choice(["reg", "auth", "auth"])
            r = base_req(random.Random(1), pool)
            r.update({"rp": rnd.choice(["a1", "a2"]), "handle": rnd.choice(["k16", "k32", "k0"]),
                      "counter": rnd.choice([{"hi": 0, "lo": 0}, {"hi": 0, "lo": 9}, {"hi": 65535, "lo": 65535}]),
                      "presence": rnd.choice([[], ["UP"], ["UP", "UV"], ["UP", "BE", "BS"], ["UV", "BE", "AT"]]),
                      "ctl": rnd.choice(["enforce", "check", "dont"])})
            e["uv"] = {"kind": "ok", "pres": True, "verif": True, "err": 0}
            if op == "reg":
                r["counter"], r["presence"], r["ctl"] = {"hi": 0, "lo": 0}, [], "enforce"
            cers.append({"api": "u2f", "op": op, "req": r, "env": e})
    return {"cfg": cfg, "store": store, "cers": cers}


def behaviours(seed, n):
    rnd = random.Random(seed)
    return [behaviour(rnd) for _ in range(n)]
