"""C02 - registration returns a credential that a standard relying party can verify.

Authenticator level: every algorithm preference list of length 0..3 over {ES256, RS256, EdDSA, unknown} x requested
credential-id length {0,15,16,40,64,65,255} x counter on/off x store empty/non-empty (CerMC_C02.cfg) and histories of
three registrations over two RPs (CerMC_C02hist.cfg), and of repeated registrations for one account on the shipped
MemoryStore (CerMC_C02histmem.cfg: every registration adds exactly one record and removes none).  Client level (CerMC_C02client.cfg): challenges, client-data modes,
origins / RP IDs, empty preference list = WebAuthn defaults.  Every behaviour is replayed; the relying-party role of
the harness reads the returned bytes independently (own authenticator-data decoder, sha2, p256) and the C02 invariants
judge its verdicts.
"""
from checks import cerlib

LEVEL = "model_checking"
PREFIXES = ["C02.", "C01.", "Any.Crash"]


def run(chk):
    cerlib.run_config(chk, "C02", PREFIXES)
    cerlib.run_config(chk, "C02hist", PREFIXES)
    cerlib.run_config(chk, "C02histmem", PREFIXES)
    cerlib.run_config(chk, "C02client" if chk.tier == "thorough" else "C02clientQ", PREFIXES)
    cerlib.random_histories(chk, PREFIXES, quick_n=0)
    cerlib.finish_cov(chk, "one behaviour per (algorithm list, id length, counter flag, store) and per registration history; client: per (challenge class, client-data mode, origin/RP-ID class, algorithm list)",
                      False, "bounded histories, abstract cryptography; exhaustive within the bound")


def replay(chk, path):
    cerlib.replay_file(chk, path, PREFIXES)
